------------------------------ MODULE LuaGrammar ------------------------------
(* C03: the syntax of Lua 5.1 / 5.2 / 5.3 / 5.4 / 5.5 and LuaJIT 2.1 as version-gated productions,
   transcribed from the reference manuals ("The Complete Syntax of Lua", section 8 of the 5.1 manual and
   section 9 of the 5.2-5.4 manuals; the 5.5 additions `global` declarations and the named vararg
   parameter; LuaJIT 2.1 = 5.1 + goto/labels + 5.2 escapes + LL/ULL/i numeric suffixes).

   A state is a sentential form (sequence of symbols); Expand rewrites the LEFTMOST nonterminal with a
   production that the version has.  Forms whose minimal yield exceeds MaxTokens are pruned, so TLC
   enumerates every leftmost derivation of every program of <= MaxTokens tokens; terminal forms are
   printed (Emit).  The program text is the tokens joined by one space (a comment token carries its
   own line end).

   Only programs that the reference compiler accepts as a whole are generated, so the productions also
   respect the compile-time (non-grammar) rules of the reference:
     break only as last statement of a loop body (5.1 rule; valid in every version);
     goto only together with its label (`goto l1 ::l1::`), a lone label `::l2::` at most once;
     `...` only in the main chunk's own statements and in functions declared with a `...` parameter;
     <close> at most once per local statement; no assignment to a <const> name;
     a `global` declaration only as the last statement of the main chunk (5.5: it makes every
     undeclared name an error afterwards).

   Derivable at version V  =>  the real parser at level V must report no error (positive direction).
   Not derivable at V but derivable at some other version (the program needs a version-gated production)
   => the reference of version V rejects it; the parser must report an error (negative direction, grammar-
   judged).  For 5.5 every generated program and its single-token corruptions are also judged by the
   reference implementation `luars`, which cross-validates this transcription. *)
EXTENDS Naturals, Sequences, FiniteSets, TLC, Json

CONSTANTS Versions,     \* versions to enumerate (the initial state chooses one)
          MaxTokens,    \* bound on the number of tokens of a program
          Rich,         \* TRUE: every lexical alternative (numeral/string/comment forms, operators) once in a fixed
                        \* statement context, in addition to the representatives used everywhere
          CorruptMax    \* programs of <= CorruptMax tokens derived at Lua 5.5 are also emitted with one token
                        \* dropped / duplicated / swapped with its successor (judged by the reference only)

VARIABLES ver, form, lab1, lab2, mut, lex
\* lex: the one LexLit/LexCmt of the program has been used
\* ver: the version of this derivation; form: sentential form; lab1/lab2: the goto+label unit / the lone
\* label has been used; mut: <<>> or <<kind, i>> once a terminal form has been corrupted
vars == <<ver, form, lab1, lab2, mut, lex>>
Version == ver

V51 == Version = "Lua51"
JIT == Version = "LuaJIT2"
Ge52 == Version \in {"Lua52", "Lua53", "Lua54", "Lua55"}
Ge53 == Version \in {"Lua53", "Lua54", "Lua55"}
Ge54 == Version \in {"Lua54", "Lua55"}
Ge55 == Version = "Lua55"
HasGoto == Ge52 \/ JIT
HasEmptyStat == Ge52          \* LuaJIT follows the 5.1 rule `chunk ::= {stat [';']}`... it accepts ';' too, not generated
HasEsc52 == Ge52 \/ JIT       \* \z \x

NT == {"chunk", "stats", "stat", "block", "lblock", "ret", "topstat", "topret", "funcname", "funcbody",
       "parlist", "attnamelist", "namelist", "explist", "var", "prefixexp", "call", "args", "exp", "opnd",
       "simple", "functiondef", "table", "fieldlist", "field", "sep", "binop", "unop", "Numeral", "String",
       "Comment", "globaldecl", "RichLit", "RichBin", "RichUn", "RichCmt", "LexLit", "LexCmt"}

Binops == {"+", "-", "*", "/", "^", "%", "..", "<", "<=", ">", ">=", "==", "~=", "and", "or"}
          \cup (IF Ge53 THEN {"//", "&", "~", "|", ">>", "<<"} ELSE {})
BinopsPoor == {"+", "..", "==", "and"} \cup (IF Ge53 THEN {"//", "&", "<<", "~"} ELSE {})
Unops == {"-", "not", "#"} \cup (IF Ge53 THEN {"~"} ELSE {})

Numerals == {"1", "0xA", "3.5", "1e2", ".5", "3."}
            \cup (IF Ge52 \/ JIT THEN {"0x.8p1", "0xA.8"} ELSE {})
            \cup (IF JIT THEN {"1LL", "0x1ULL", "2i"} ELSE {})
Strings == {"\"s\"", "'s'", "[[s]]", "[==[s]]]==]", "\"\\n\\065\\\"\""}
           \cup (IF HasEsc52 THEN {"\"\\x41\\z  \""} ELSE {})
           \cup (IF Ge53 THEN {"\"\\u{48}\""} ELSE {})
Comments == {"--c\n", "--[[c]]", "--[==[c]]c]==]"}

\* ---- the complete lexical alphabet of strings and comments (LexLit / LexCmt: at most ONE of them per program,
\* variable `lex`, so that the alphabet grows the case set linearly).  Strings are built with \o so that every
\* line-break form of the reference (llex.c inclinenumber: LF, CR, CR LF, LF CR each count as ONE break) appears
\* with every construct that may contain a break: backslash-newline (all versions), \z + white space (5.2+,
\* LuaJIT), long brackets, short comments.
LB == {"\n", "\r", "\r\n", "\n\r"}
\* backslash + line break continues a short string (5.1 manual 2.1; unchanged since)
EscNL == {"\"a\\" \o lb \o "b\"" : lb \in LB}            \* in the middle
         \cup {"'\\" \o lb \o "'" : lb \in LB}            \* as the whole content, single-quoted
         \cup {"\"\\\n\\\r\\\r\n\\\n\rb\""}               \* four escaped breaks in a row, one of each form
\* C-like escapes, \ddd (1-3 digits, also followed by a digit), escaped quotes of either kind, empty strings
EscOld == {"\"\\a\\b\\f\\n\\r\\t\\v\\\\\\\"\\'\"", "'\\a\\b\\f\\n\\r\\t\\v\\\\\\\"\\''",
           "\"\\0\\65\\065\\2550\"", "'\\\\'", "\"\\\\\\\\\"", "\"\"", "''"}
\* long brackets: a `]` / `]=` / `]==` run that is NOT the closing delimiter directly before the real one;
\* line breaks of every form inside
LongStr == {"[=[s]]=]", "[==[s]=]==]", "[=[s]==]=]", "[[s]=]]", "[=[]]=]", "[==[]==]", "[[\r\ns\n]]", "[=[\n\rs]\r]=]"}
\* 5.2: \xXX, \z (skips white space including any sequence of line breaks; may be followed by nothing to skip)
Esc52 == {"\"\\x7f\\xFF\\x0a\"", "\"\\z\r\n\n\r \t\r\n b\"", "\"\\zb\"", "\"a\\z\"", "'a\\z \n'"}
         \cup {"\"a\\z" \o lb \o "  b\"" : lb \in LB}
\* 5.3: \u{XXX}
Esc53 == {"\"\\u{0}\\u{10FFFF}\""}
LexStrings == EscOld \cup EscNL \cup LongStr \cup (IF HasEsc52 THEN Esc52 ELSE {}) \cup (IF Ge53 THEN Esc53 ELSE {})
LexComments == {"--c\r\n", "--c\r", "--c\n\r", "--\n", "--[=[c]]=]", "--[==[c]=]==]", "--[=[c]==]=]", "--[[c]=]]",
                "--[[c\r\nc]]", "--[=[\n]]=]"}
\* ---- the complete numeral alphabet (second seeded round): every path through the reference's read_numeral /
\* l_str2d: decimal integer / fraction on either side of the `.` / exponent e|E with and without sign, with and
\* without a `.` before it; hexadecimal integer (x|X, digits of both cases); and for 5.2+ / LuaJIT hexadecimal
\* floats: binary exponent p|P directly after the integer digits (NO `.`: the manual's own `0xA23p-4`), after a
\* `.` with digits on either / both sides, a mantissa whose last hex digit is `e` (not a decimal exponent).
LexNumDec == {"0", "007", "1e5", "1E5", "1e+5", "1E-5", "3.e2", "3.E+2", ".5e-3", ".5E3", "3.25e+10", "0.0",
              "0xff", "0XFF", "0xaBc09", "0xe", "0x0"}
LexNumHexFloat == {"0xA23p-4", "0x1p4", "0x1P4", "0xfP+2", "0Xfp2", "0xep1", "0xep-1", "0xA.p1", "0xA.P-1", "0x.1",
                   "0x.ep+1", "0xA.8p0", "0x1.8P+3", "0xA."}
LexNumerals == LexNumDec \cup (IF Ge52 \/ JIT THEN LexNumHexFloat ELSE {})
LexNT == {"LexLit", "LexCmt"}

Seqs(S) == {<<x>> : x \in S}

Prods(nt) ==
  CASE nt = "chunk" -> {<<"stats">>, <<"stats", "topstat">>, <<"stats", "topret">>}
                        \cup (IF Ge55 THEN {<<"stats", "globaldecl">>} ELSE {})
    [] nt = "stats" -> {<<>>, <<"stat", "stats">>}
    [] nt = "block" -> {<<"stats">>, <<"stats", "ret">>}
    [] nt = "lblock" -> {<<"block">>, <<"stats", "break">>, <<"stats", "break", ";">>}
    [] nt = "ret" -> {<<"return">>, <<"return", "explist">>, <<"return", "explist", ";">>, <<"return", ";">>}
    [] nt = "topret" -> {<<"ret">>, <<"return", "...">>, <<"return", "...", ",", "exp">>}
    [] nt = "topstat" -> {<<"local", "a", "=", "...">>, <<"a", "(", "...", ")">>, <<"a", "=", "{", "...", "}">>}
    [] nt = "globaldecl" -> {<<"global", "a">>, <<"global", "a", ",", "b", "=", "explist">>, <<"global", "<", "const", ">", "*">>,
                             <<"global", "*">>, <<"global", "function", "f", "funcbody">>, <<"global", "a", "<", "const", ">">>}
    [] nt = "stat" ->
         {<<"var", "=", "exp">>, <<"var", ",", "var", "=", "explist">>, <<"call">>,
          <<"do", "block", "end">>, <<"while", "exp", "do", "lblock", "end">>, <<"repeat", "lblock", "until", "exp">>,
          <<"if", "exp", "then", "block", "end">>, <<"if", "exp", "then", "block", "else", "block", "end">>,
          <<"if", "exp", "then", "block", "elseif", "exp", "then", "block", "end">>,
          <<"if", "exp", "then", "block", "elseif", "exp", "then", "block", "else", "block", "end">>,
          <<"for", "a", "=", "exp", ",", "exp", "do", "lblock", "end">>,
          <<"for", "a", "=", "exp", ",", "exp", ",", "exp", "do", "lblock", "end">>,
          <<"for", "namelist", "in", "explist", "do", "lblock", "end">>,
          <<"function", "funcname", "funcbody">>, <<"local", "function", "f", "funcbody">>,
          <<"local", "attnamelist">>, <<"local", "attnamelist", "=", "explist">>,
          <<"Comment">>}
         \cup (IF Rich THEN {<<"a", "=", "RichLit">>, <<"a", "=", "a", "RichBin", "a">>, <<"a", "=", "RichUn", "a">>,
                              <<"RichCmt">>, <<"a", "=", "LexLit">>, <<"a", "LexCmt", "(", ")">>} ELSE {})
         \cup (IF HasEmptyStat THEN {<<";">>} ELSE {})
         \cup (IF HasGoto THEN {<<"goto", "l1", "::", "l1", "::">>, <<"::", "l2", "::">>} ELSE {})
         \* statement separator after a statement (all versions): `stat ;`
         \cup {<<"call", ";">>}
         \* `goto` is an ordinary name where it is not reserved
         \cup (IF V51 THEN {<<"goto", "=", "exp">>, <<"local", "goto">>} ELSE {})
    [] nt = "funcname" -> {<<"f">>, <<"f", ".", "a">>, <<"f", ":", "m">>, <<"f", ".", "a", ":", "m">>}
    [] nt = "funcbody" -> {<<"(", ")", "block", "end">>, <<"(", "parlist", ")", "block", "end">>,
                           <<"(", "...", ")", "return", "...", "end">>, <<"(", "a", ",", "...", ")", "local", "b", "=", "...", "end">>}
                          \cup (IF Ge55 THEN {<<"(", "...", "t", ")", "return", "t", "end">>} ELSE {})
    [] nt = "parlist" -> {<<"a">>, <<"a", ",", "b">>}
    [] nt = "namelist" -> {<<"a">>, <<"a", ",", "b">>}
    [] nt = "attnamelist" -> {<<"a">>, <<"a", ",", "b">>}
                             \cup (IF Ge54 THEN {<<"c", "<", "const", ">">>, <<"c", "<", "close", ">">>,
                                                 <<"a", ",", "c", "<", "const", ">">>, <<"c", "<", "const", ">", ",", "d", "<", "close", ">">>}
                                   ELSE {})
    [] nt = "explist" -> {<<"exp">>, <<"exp", ",", "explist">>}
    [] nt = "var" -> {<<"a">>, <<"prefixexp", ".", "b">>, <<"prefixexp", "[", "exp", "]">>}
    [] nt = "prefixexp" -> {<<"a">>, <<"call">>, <<"(", "exp", ")">>, <<"prefixexp", ".", "b">>, <<"prefixexp", "[", "exp", "]">>}
    [] nt = "call" -> {<<"prefixexp", "args">>, <<"prefixexp", ":", "m", "args">>}
    [] nt = "args" -> {<<"(", ")">>, <<"(", "explist", ")">>, <<"table">>, <<"String">>}
    [] nt = "exp" -> {<<"opnd">>, <<"opnd", "binop", "exp">>}
    [] nt = "opnd" -> {<<"simple">>, <<"unop", "opnd">>}
    [] nt = "simple" -> {<<"nil">>, <<"false">>, <<"true">>, <<"Numeral">>, <<"String">>, <<"functiondef">>,
                         <<"prefixexp">>, <<"table">>}
    [] nt = "functiondef" -> {<<"function", "funcbody">>}
    [] nt = "table" -> {<<"{", "}">>, <<"{", "fieldlist", "}">>, <<"{", "fieldlist", "sep", "}">>}
    [] nt = "fieldlist" -> {<<"field">>, <<"field", "sep", "fieldlist">>}
    [] nt = "field" -> {<<"[", "exp", "]", "=", "exp">>, <<"a", "=", "exp">>, <<"exp">>}
    [] nt = "sep" -> {<<",">>, <<";">>}
    [] nt = "binop" -> Seqs(BinopsPoor)
    [] nt = "unop" -> Seqs({"-", "not"})
    [] nt = "Numeral" -> Seqs({"1"})
    [] nt = "String" -> Seqs({"\"s\""})
    [] nt = "Comment" -> Seqs({"--c\n"})
    \* every lexical alternative once, in a fixed context (linear, not a product with the grammar)
    [] nt = "RichLit" -> Seqs(Numerals \cup Strings)
    [] nt = "RichBin" -> Seqs(Binops)
    [] nt = "RichUn" -> Seqs(Unops)
    [] nt = "RichCmt" -> Seqs(Comments)
    [] nt = "LexLit" -> Seqs(LexStrings \cup LexNumerals)
    [] nt = "LexCmt" -> Seqs(LexComments)
    [] OTHER -> {}

\* minimal number of tokens a symbol yields (for pruning)
MinLen(sym) ==
  CASE sym \in {"chunk", "stats", "block", "lblock"} -> 0
    [] sym \in {"stat", "args", "ret", "topret", "funcname", "parlist", "attnamelist", "namelist", "explist", "var",
                "prefixexp", "exp", "opnd", "simple", "field", "fieldlist", "sep", "binop", "unop", "Numeral",
                "String", "Comment"} -> 1
    [] sym \in {"table", "globaldecl", "call"} -> 2
    [] sym = "funcbody" -> 3
    [] sym = "functiondef" -> 4
    [] sym = "topstat" -> 4
    [] OTHER -> 1
RECURSIVE MinYield(_)
MinYield(f) == IF f = <<>> THEN 0 ELSE MinLen(Head(f)) + MinYield(Tail(f))


FirstNT(f) == LET idx == {i \in 1..Len(f) : f[i] \in NT} IN
              IF idx = {} THEN 0 ELSE CHOOSE i \in idx : \A j \in idx : i <= j

Init == ver \in Versions /\ form = <<"chunk">> /\ lab1 = FALSE /\ lab2 = FALSE /\ mut = <<>> /\ lex = FALSE

Expand ==
  LET i == FirstNT(form) IN
  /\ i > 0 /\ UNCHANGED <<ver, mut>>
  /\ \E p \in Prods(form[i]) :
       LET uses1 == Len(p) > 0 /\ p[1] = "goto" /\ Len(p) = 5
           uses2 == Len(p) = 3 /\ p[1] = "::"
           usesL == \E k \in 1..Len(p) : p[k] \in LexNT
           nf == SubSeq(form, 1, i - 1) \o p \o SubSeq(form, i + 1, Len(form))
       IN /\ ~(uses1 /\ lab1) /\ ~(uses2 /\ lab2) /\ ~(usesL /\ lex)
          /\ MinYield(nf) <= MaxTokens
          /\ form' = nf
          /\ lab1' = (lab1 \/ uses1) /\ lab2' = (lab2 \/ uses2) /\ lex' = (lex \/ usesL)

Terminal == FirstNT(form) = 0

\* single-token corruptions of a finished 5.5 program; whether the result is still a program is for the
\* reference implementation to say
Corrupt ==
  /\ Terminal /\ mut = <<>> /\ ver = "Lua55" /\ Len(form) >= 1 /\ Len(form) <= CorruptMax
  /\ UNCHANGED <<ver, lab1, lab2, lex>>
  /\ \E i \in 1..Len(form) :
       \/ /\ mut' = <<"drop", i>>
          /\ form' = SubSeq(form, 1, i - 1) \o SubSeq(form, i + 1, Len(form))
       \/ /\ mut' = <<"dup", i>>
          /\ form' = SubSeq(form, 1, i) \o SubSeq(form, i, Len(form))
       \/ /\ i < Len(form) /\ form[i] # form[i + 1]
          /\ mut' = <<"swap", i>>
          /\ form' = SubSeq(form, 1, i - 1) \o <<form[i + 1], form[i]>> \o SubSeq(form, i + 2, Len(form))

Next == Expand \/ Corrupt
Spec == Init /\ [][Next]_vars

\* ---- negative direction, judged by the grammar (no reference implementation for 5.1-5.4 is installed):
\* a program that is derivable at some version but not at v needs a production v does not have.  That is a
\* definite syntax error of the reference of version v only for the manual versions (LuaJIT's accepted
\* language is not pinned down by a manual), and only if the missing alternative is not one of the lexical
\* forms the reference of v happens to accept although its manual does not list them (Lua 5.1 keeps the
\* character after an unknown escape and reads numerals with the C library, so 5.2/5.3 escapes and hex floats
\* load).  The driver replaces such lexemes by the plain representative before consulting derivability.
NegVersions == {"Lua51", "Lua52", "Lua53", "Lua54", "Lua55"}
SoftLex(v) == IF v = "Lua51" THEN {"0x.8p1", "0xA.8", "\"\\x41\\z  \"", "\"\\u{48}\""} \cup Esc52 \cup Esc53 \cup LexNumHexFloat ELSE {}
Table == [neg |-> NegVersions \cap Versions, soft |-> [v \in Versions |-> SoftLex(v)],
          plain_num |-> "1", plain_str |-> "\"s\""]

Emit == /\ (form = <<"chunk">> => PrintT(<<"TABLE", ToJson(Table)>>))
        /\ (Terminal => PrintT(<<"PROG", ToJson([t |-> form, v |-> ver, m |-> mut])>>))
=============================================================================
