SPECIFICATION FSpec
CONSTANTS
  Mode = "focus"
  MaxStmts = 1
  Families = {"quote", "comment", "doc", "lambda"}
  Full = TRUE
  PerPoint = 16
INVARIANT Emit
