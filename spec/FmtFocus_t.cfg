SPECIFICATION FSpec
CONSTANTS
  Mode = "focus"
  MaxStmts = 1
  Families = {"quote", "comment", "doc", "lambda", "semi", "blank"}
  Full = TRUE
  PerPoint = 16
INVARIANT Emit
