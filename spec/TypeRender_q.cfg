SPECIFICATION Spec
CONSTANTS
  AtomNames = {"nil", "boolean", "integer", "string", "table", "true", "1", "-1", "s", "dq", "bs", "A", "Al", "E"}
  SibNames = {"integer", "nil"}
  KeyNames = {"string"}
  RecShapes1 = {"x", "x?"}
  RecShapes2 = {"x,y?"}
  Depth2Kinds = {"union", "opt", "arr", "map", "rec"}
  Depth3Kinds = {"opt", "arr"}
  Depth3Cons = {"arr", "opt", "union"}
INVARIANTS FitsOk DepthOk Emit
