SPECIFICATION Spec
CONSTANTS
  AtomNames = {"nil", "boolean", "integer", "string", "table", "true", "1", "-1", "s", "dq", "bs", "A", "Al", "E"}
  SibNames = {"integer", "nil"}
  KeyNames = {"string"}
  RecShapes1 = {"x", "x?", "['a b']", "['1']"}
  RecShapes2 = {"x,y?"}
  Depth2Kinds = {"union", "opt", "arr", "map", "rec"}
  Depth3Kinds = {"opt", "arr"}
  Depth3Cons = {"arr", "opt", "union"}
  LitNames = {"s", "dq", "bs", "empty", "digit", "sq", "bsn", "bsdq", "nl", "cr", "tab", "ctl", "ctld", "ctlF", "ctldd", "nul", "nuld", "bel", "esc", "escd", "del", "nel", "u8", "u8d", "cjk", "astral", "0", "1", "-1", "-2", "i32", "-i32", "f53", "max", "-max", "true", "false"}
  LitDepth2Kinds = {}
INVARIANTS FitsOk DepthOk Emit
