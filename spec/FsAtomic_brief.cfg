SPECIFICATION Spec
INVARIANT EmitBrief
POSTCONDITION Accepted
