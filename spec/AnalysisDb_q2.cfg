SPECIFICATION Spec
CONSTANTS
  NPaths = 3
  Contents = {"GInt", "GStr", "ReqB"}
  Ops = {"update", "reindex"}
  MaxSteps = 3
  EditDist = 1
  Batch = FALSE
  EmitSel = "same"
VIEW View
INVARIANTS ReindexIsIdeal NoLeak C08_Model Emit
