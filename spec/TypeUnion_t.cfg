SPECIFICATION Spec
CONSTANTS
  Full = {"nil", "any", "never", "unknown", "boolean", "integer", "number", "string", "table", "function", "dtrue", "dfalse", "ctrue", "cfalse", "d1", "d2", "c1", "c2", "f15", "ds", "dt", "cs", "ct", "tc1", "tc2", "df", "df2", "A", "B", "Al", "Au", "arr", "tg", "tg2", "ob", "ob2", "Uis", "Uds", "Um"}
  Core = {"nil", "any", "never", "boolean", "dtrue", "dfalse", "ctrue", "integer", "d1", "c1", "number", "f15", "string", "ds", "cs", "table", "tc1", "function", "df", "A", "tg"}
  SmallLen = 3
  MaxLen = 4
  ArcPointerHash = FALSE
  Waive = {}
INVARIANTS Emit FastPathAgrees FastPathMeaningful
