------------------------------ MODULE SemTokens ------------------------------
(* C26: the semantic-token builder of emmylua_ls, transcribed from
   crates/emmylua_ls/src/handlers/semantic_token/semantic_token_builder.rs (SemanticBuilder, client without
   multilineTokenSupport):
     push_data(range)   de-duplicates by START OFFSET only (seen_positions), converts both ends to
                        (line, col), splits a range that spans lines into one piece per line (length 9999
                        on every line but the last, length end_col on the last) or stores one piece of
                        length end_col -. start_col;
     build()            flattens, sorts by (line, col) and delta-encodes (deltaLine, deltaStart relative
                        to the previous token, deltaStart absolute after a line change).
   together with the decoder every LSP client runs.  The text is a grid of NL lines of W characters; line
   i occupies offsets i*(W+1) .. i*(W+1)+W-1 and is followed by its newline (the last line by the end of
   the text).  TLC explores every sequence of <= MaxPush pushed non-empty ranges and establishes the
   assume/guarantee split used on the recorded responses:

     Guarantee   producer obligation (pushed ranges pairwise disjoint, no range ends at column 0 of a
                 later line)  =>  the decoded output is strictly ordered, non-overlapping and is exactly
                 the per-line pieces of the pushed ranges;
     Converse    two retained pushes overlap  =>  the decoded output is NOT ordered/non-overlapping,
                 so checking the output of the real server checks the producers;
     Lossless    decode(encode(sorted pieces)) = sorted pieces (no unsigned underflow in the deltas).

   Big = 0 is the builder as it is now (a piece of a multi-line range ends at the end of its line, so
   InDocument holds for every output under the obligation); Big = 9999-like reproduces the former
   "length 9999" pieces, for which TLC reports the InDocument violation (SemTokens_pinned.cfg).          *)
EXTENDS Naturals, Sequences, FiniteSets, TLC

CONSTANTS W, NL, MaxPush, Big

End == NL * (W + 1) - 1                 \* offset of the end of the text
Offsets == 0..End
LineOf(o) == o \div (W + 1)
ColOf(o) == o % (W + 1)
Ranges == {r \in Offsets \X Offsets : r[1] < r[2]}

Monus(a, b) == IF a >= b THEN a - b ELSE 0       \* u32::saturating_sub

\* ---------------------------------------------------------------- SemanticBuilder::push_data
\* length of the piece of a multi-line range on a line it does not end on: the rest of the line
\* (line_length - col, saturating); the tree before the fix used the constant 9999 (Big > 0 selects it)
ToEol(col) == IF Big > 0 THEN Big ELSE Monus(W, col)
Pieces(r) ==
  LET sl == LineOf(r[1])  sc == ColOf(r[1])  el == LineOf(r[2])  ec == ColOf(r[2]) IN
  IF sl # el
    THEN <<[line |-> sl, col |-> sc, len |-> ToEol(sc)]>>
         \o [k \in 1..(el - sl - 1) |-> [line |-> sl + k, col |-> 0, len |-> ToEol(0)]]
         \o <<[line |-> el, col |-> 0, len |-> ec]>>
    ELSE <<[line |-> sl, col |-> sc, len |-> Monus(ec, sc)]>>

\* indexes of the pushes that survive seen_positions (first push of a start offset wins)
Kept(p) == {i \in 1..Len(p) : \A j \in 1..(i - 1) : p[j][1] # p[i][1]}

RECURSIVE Data(_, _)
Data(p, i) == IF i > Len(p) THEN <<>>
              ELSE (IF i \in Kept(p) THEN Pieces(p[i]) ELSE <<>>) \o Data(p, i + 1)

\* ---------------------------------------------------------------- SemanticBuilder::build
Before(a, b) == a.line < b.line \/ (a.line = b.line /\ a.col < b.col)
\* stable insertion sort by (line, col); sort_unstable_by may order ties differently, every property
\* below is false as soon as a tie exists, whatever its order
RECURSIVE Insert(_, _)
Insert(s, x) == IF s = <<>> THEN <<x>>
                ELSE IF Before(x, Head(s)) THEN <<x>> \o s
                ELSE <<Head(s)>> \o Insert(Tail(s), x)
RECURSIVE Sort(_)
Sort(s) == IF s = <<>> THEN <<>> ELSE Insert(Sort(SubSeq(s, 1, Len(s) - 1)), s[Len(s)])

RECURSIVE Encode(_, _, _)
Encode(s, pl, pc) ==
  IF s = <<>> THEN <<>>
  ELSE LET t == Head(s)
           dl == t.line - pl
           base == IF dl # 0 THEN 0 ELSE pc
       IN <<[dl |-> dl, ds |-> t.col - base, len |-> t.len]>> \o Encode(Tail(s), t.line, t.col)

\* the decoder of the LSP specification
RECURSIVE Decode(_, _, _)
Decode(e, pl, pc) ==
  IF e = <<>> THEN <<>>
  ELSE LET d == Head(e)
           line == pl + d.dl
           col == IF d.dl = 0 THEN pc + d.ds ELSE d.ds
       IN <<[line |-> line, col |-> col, len |-> d.len]>> \o Decode(Tail(e), line, col)

Output(p) == Decode(Encode(Sort(Data(p, 1)), 0, 0), 0, 0)

\* ---------------------------------------------------------------- result predicates (also used on traces)
Ordered(out) == \A i \in 1..(Len(out) - 1) : Before(out[i], out[i + 1])
NonOverlapping(out) ==
  \A i \in 1..(Len(out) - 1) : out[i].line = out[i + 1].line => out[i].col + out[i].len <= out[i + 1].col
WellFormed(out) == Ordered(out) /\ NonOverlapping(out)
InDocument(out) == \A i \in 1..Len(out) : out[i].line < NL /\ out[i].col + out[i].len <= W

\* ---------------------------------------------------------------- producer obligation
Disjoint(a, b) == a[2] <= b[1] \/ b[2] <= a[1]
PairwiseDisjoint(p, idx) == \A i \in idx : \A j \in idx : i < j => Disjoint(p[i], p[j])
EndsAtLineStart(r) == LineOf(r[1]) # LineOf(r[2]) /\ ColOf(r[2]) = 0
Obligation(p) == PairwiseDisjoint(p, 1..Len(p)) /\ \A i \in 1..Len(p) : ~EndsAtLineStart(p[i])

VARIABLE pushes
Init == pushes \in UNION {[1..n -> Ranges] : n \in 0..MaxPush}
Next == UNCHANGED pushes
Spec == Init /\ [][Next]_pushes

Sorted == Sort(Data(pushes, 1))
Guarantee == Obligation(pushes) =>
               /\ WellFormed(Output(pushes))
               /\ Len(Output(pushes)) = Len(Data(pushes, 1))
               /\ \A i \in 1..Len(pushes) : \A k \in 1..Len(Pieces(pushes[i])) :
                     \E j \in 1..Len(Output(pushes)) : Output(pushes)[j] = Pieces(pushes[i])[k]
Converse == ~PairwiseDisjoint(pushes, Kept(pushes)) => ~WellFormed(Output(pushes))
\* the delta encoding loses nothing and never subtracts below zero on the sorted pieces
Lossless == Output(pushes) = Sorted
NoUnderflow == \A i \in 1..(Len(Sorted) - 1) :
                 Sorted[i + 1].line >= Sorted[i].line
                 /\ (Sorted[i + 1].line = Sorted[i].line => Sorted[i + 1].col >= Sorted[i].col)
\* what de-duplication by start offset alone cannot see: dropped pushes may overlap retained ones
DedupOnlyByStart == \A i \in 1..Len(pushes) : i \notin Kept(pushes) =>
                      \E j \in Kept(pushes) : j < i /\ pushes[j][1] = pushes[i][1]
\* every output token lies inside its line when the producers keep the obligation
OutputInDocument == Obligation(pushes) => InDocument(Output(pushes))
SingleLineInDocument == (Obligation(pushes) /\ \A i \in 1..Len(pushes) : LineOf(pushes[i][1]) = LineOf(pushes[i][2]))
                          => InDocument(Output(pushes))
=============================================================================
