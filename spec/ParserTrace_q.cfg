SPECIFICATION TSpec
CONSTANTS
  MaxCalls = 0
  GenKinds = {}
  GenToks = {}
  EvK = 12
  EvC = 16
POSTCONDITION AllConsumed
