SPECIFICATION Spec
CONSTANTS
  Full = {"nil", "any", "never", "unknown", "boolean", "integer", "number", "string", "table", "function", "dtrue", "dfalse", "ctrue", "cfalse", "d1", "d2", "c1", "c2", "f15", "ds", "dt", "cs", "ct", "tc1", "tc2", "df", "df2", "A", "B", "Al", "Au", "arr", "tg", "tg2", "ob", "ob2", "Uis", "Uds", "Um"}
  Core = {"nil", "boolean", "dtrue", "dfalse", "integer", "d1", "number", "string", "ds", "table", "tc1", "A"}
  SmallLen = 2
  MaxLen = 3
  ArcPointerHash = FALSE
  Waive = {}
INVARIANTS Emit FastPathAgrees FastPathMeaningful
