SPECIFICATION Spec
CONSTANTS
  MaxCalls = 7
  GenKinds = {"Block", "Comment", "MLUnion", "DocDesc", "Other"}
  GenToks = {"ws", "cont", "plain"}
INVARIANTS Safe
