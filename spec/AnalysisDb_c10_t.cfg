SPECIFICATION Spec
CONSTANTS
  NPaths = 3
  Contents = {"ClsDoc", "ClsPlain", "ClsField", "GInt", "ReqB", "UseFoo", "ClsSub", "Mod"}
  Ops = {"unset", "remove"}
  MaxSteps = 3
  EditDist = 3
  Batch = FALSE
  EmitSel = "removal"
VIEW View
INVARIANTS ReindexIsIdeal NoLeak Emit
