------------------------------- MODULE FmtGen -------------------------------
(* Input generator for the formatter properties C05 / C06 / C07.

   A program is a sequence of statements, each optionally preceded by a comment / doc-annotation block
   and followed by a trailing comment, joined by one of the legal statement separators.  Statements and
   expressions come from a small grammar (sets of source strings built bottom-up) that contains every
   construct the formatter is allowed to normalise (table separators incl. trailing ones, both quote
   styles with escapes, single string/table argument calls with and without parentheses, statement
   semicolons incl. the one that separates `x = y ; (f)()`), the constructs it must not touch (long
   strings, long comments, numbers), and doc comments with tags, unions of function types, multi-line
   aliases and a markdown code fence.  A configuration is one point of the formatter's option lattice.

   Mode "single": exhaustive -- every single statement x every corner configuration (BFS, Init only).
   Mode "sim":    TLC -simulate builds programs of up to MaxStmts statements: the statement KIND is a
                  TLC choice, the slot fillers are drawn with RandomElement (reproducible with -seed);
                  the configuration is a random point of the full lattice.
   Every finished program is printed as a CASE line {text, cfg, n}.  *)
EXTENDS Naturals, Sequences, FiniteSets, TLC, Json

CONSTANTS Mode, MaxStmts

VARIABLES prog, n, cfg, done, kinds, lc   \* lc: the program ends in a line comment (a newline must follow)
vars == <<prog, n, cfg, done, kinds, lc>>

NL == "\n"
\* ---------------------------------------------------------------------------------------------
\* expressions
\* ---------------------------------------------------------------------------------------------
Strs == {"'s'", "\"d\"", "'q\"q'", "\"it's\"", "'a\\'b'", "\"\\65\\n\"", "[[long  text]]", "[==[ ]] ]==]"}
\* Short strings whose body has escape sequences next to quote characters, for both quote kinds (q = the string's own
\* quote, o = the other one).  These are the inputs on which re-quoting (quote_style = Double / Single) can go wrong:
\* a quote of the other kind that is real (after an EVEN run of backslashes) vs. escaped (after an ODD run), a body
\* ending in an escaped backslash, `\z` (skips the following white space incl. the newline), decimal / hex / unicode
\* escapes and a line continuation directly in front of a quote.  Used by FmtFocus.tla (family "quote").
BS == "\\"
EscBodies(q, o) ==
  {"a" \o BS \o BS \o o \o "b", BS \o BS \o o, "C:" \o BS \o BS \o o \o "x" \o o,          \* \\" : escaped backslash, real quote
   "a" \o BS \o o \o "b", BS \o o, BS \o o \o BS \o o,                                      \* \"  : escaped other quote
   "a" \o BS \o q \o "b", BS \o q, BS \o q \o o, o \o BS \o q,                              \* \'  : escaped own quote (next to a real other one)
   BS \o BS \o BS \o o, BS \o BS \o BS \o BS \o o, BS \o BS \o BS \o q \o o,                \* odd / even runs of 3 and 4
   "a" \o BS \o BS, BS \o BS, o \o BS \o BS, BS \o o \o BS \o BS,                           \* backslash at the end
   o, o \o o, "a" \o o \o "b" \o o, "",                                                     \* plain quotes of the other kind, empty
   "x" \o BS \o "z" \o NL \o "   y", BS \o "z" \o o, o \o BS \o "z  " \o o,                 \* \z
   BS \o "65" \o o, BS \o "039", BS \o "34", BS \o "x41" \o o, BS \o "x22", BS \o "x27",    \* decimal / hex (34 = ", 39 = ')
   BS \o "u{48}" \o o, BS \o "u{22}" \o BS \o "u{27}",                                      \* unicode
   BS \o "n" \o o, BS \o "t" \o BS \o o, BS \o NL \o o, BS \o "a" \o BS \o "b" \o BS \o q}  \* control escapes, line continuation
EscStrs == UNION {{qo[1] \o b \o qo[1] : b \in EscBodies(qo[1], qo[2])} : qo \in {<<"'", "\"">>, <<"\"", "'">>}}
Nums == {"1", "0x10", "1e3", "3.0"}
Names == {"a", "b.c", "t[1]", "nil", "true", "..."}
Atoms == Strs \cup Nums \cup Names
Small == {"a", "'s'", "1", "\"d\""}                 \* fillers for the inner slots
Sym(x, o, y) == {x \o o \o y, x \o " " \o o \o " " \o y, x \o "   " \o o \o "  " \o y}
Tables == {"{}", "{ }", "{1,2}", "{1,2,}", "{1;2;}", "{a=1,b=2}", "{a=1;b='s';}", "{[1]=a,}", "{ {1,}, {2}; }",
           "{f 's', g{1},}", "{" \o NL \o "  1," \o NL \o "  2," \o NL \o "}",
           "{" \o NL \o "  1, -- one" \o NL \o "  2" \o NL \o "}", "{a = 1, bbbb = 2, [\"c\"] = 'x';}",
           "{ function() return 1 end, }", "{1, 2, 3, 4, 5, 6, 7, 8, 9, 10, 11, 12, 13, 14, 15, 16, 17, 18, 19, 20, 21, 22}"}
CallsStr == UNION {{"f(" \o s \o ")", "f " \o s, "f" \o s, "o:m " \o s, "o:m(" \o s \o ")", "f(" \o s \o ")(a)",
                    "f " \o s \o " 'z'", "f(" \o s \o ").x", "f " \o s \o ":len()", "(f)(" \o s \o ")", "t[1](" \o s \o ")",
                    "f( " \o s \o " )"}
                   : s \in {"'s'", "\"d\"", "[[l]]", "'a\\'b'"}}
CallsTbl == UNION {{"f(" \o t \o ")", "f" \o t, "f " \o t, "o:m" \o t, "f(" \o t \o ").x", "f" \o t \o "(a)"}
                   : t \in {"{}", "{1,2,}", "{a=1;}", "{ g{1}, h 's' }"}}
CallsOther == {"f()", "f(a)", "f(a, 1)", "f(a,'s')", "f(1)", "f((a))", "f(function() end)", "f(a)(b)", "o.p:m(a, ...)",
               "f('s', {})", "f(nil)", "require 'm'.x", "f(g 's')", "f(g{1})"}
Calls == CallsStr \cup CallsTbl \cup CallsOther
Bin == UNION {Sym(x, o, y) : x \in {"a", "'s'"}, o \in {"+", "..", "==", "<=", "//"}, y \in {"b", "\"d\""}}
       \cup {"a and b", "a  or  'x'", "not a", "-a", "#t", "- -a", "a..b..c", "1 + 2 * 3 ^ -4", "(a)", "(a or b).c",
             "(f)(a)", "a < b == (c > d)", "\"x\" .. 1", "2^3", "~a"}
Funcs == {"function(x) return x end", "function(...) local a = ...; return a end", "function() end",
          "function(a,b)" \o NL \o "  return a+b;" \o NL \o "end"}
Exprs == Atoms \cup Tables \cup Calls \cup Bin \cup Funcs

\* ---------------------------------------------------------------------------------------------
\* statements (sets of source strings); Body = statements usable inside blocks
\* ---------------------------------------------------------------------------------------------
Assigns == UNION {{"local v" \o eq \o e, "v" \o eq \o e} : eq \in {"=", " = ", "  =   "}, e \in Exprs}
           \cup {"local v, w = 1, 's'", "v, w.x = f()", "local v <const> = 1", "local v", "local v <close> = f()"}
CallStmts == Calls
Body == {"v = 1", "f 's'", "f{1}", "f('s')", "local w = {1,2,};", "return", "return a, 's'", ";", "v = 1; w = 2",
         "-- only a comment", "f(a) -- trailing", "if a then v = 1 end", "--[[ blk ]] v = 1", "break",
         "v = [[" \o NL \o "    keep" \o NL \o "this]]", "--[[" \o NL \o "      c" \o NL \o "d ]]" \o NL \o "v = 2",
         "local t = {" \o NL \o "        1, 2," \o NL \o "  3 }"}
BodyNoBreak == Body \ {"break"}
Blocks == UNION {{"if " \o c \o " then" \o NL \o "  " \o b \o NL \o "end",
                  "if " \o c \o " then " \o b \o " end",
                  "if " \o c \o " then " \o b \o " else " \o b \o " end",
                  "if " \o c \o " then" \o NL \o b \o NL \o "elseif b then" \o NL \o NL \o NL \o "   " \o b \o NL \o "else" \o NL \o b \o NL \o "end",
                  "do " \o b \o " end",
                  "do" \o NL \o "      " \o b \o NL \o "end",
                  "local function g(a, b) " \o b \o " end",
                  "function M.g(a, ...)" \o NL \o b \o NL \o "end",
                  "function M:m() " \o b \o " end",
                  "local g = function() " \o b \o " end"}
                 : c \in {"a", "a == 's'", "f 's'"}, b \in BodyNoBreak}
          \cup UNION {{"while " \o c \o " do " \o b \o " end",
                       "for i = 1, 10 do " \o b \o " end",
                       "for i=1,#t,2 do" \o NL \o b \o NL \o "end",
                       "for k, v in pairs(t) do " \o b \o " end",
                       "for _, v in ipairs{1,2,} do " \o b \o " end",
                       "repeat " \o b \o " until " \o c}
                      : c \in {"a", "f 's'"}, b \in Body}
Misc == {";", "goto done", "::done::", "do end", "local x = y; (f)()", "x = y ; (f or g)(1)", "local s = 's'; ('x'):rep(2)",
         "f();(g)()", "a = b" \o NL \o "(f)()", "local t = {" \o NL \o "  a = 1, -- first" \o NL \o "  bb = 2, -- second" \o NL \o "}",
         "local a   = 1" \o NL \o "local bbb = 2" \o NL \o "local cc  = 3",
         "a.b.c.d.e.f.g.h(1):i(2):j(3):k(4):l(5):m(6):n(7):o(8):p(9):q(10):r(11):s(12):t(13)",
         "local long = aaaaaaaaaaaaaaaa + bbbbbbbbbbbbbbbbbbbb + cccccccccccccccccc + dddddddddddddddd + eeeeeeeeeeeeeeee + ffffffffffff",
         "f(aaaaaaaaaaaaaaaaaaaaaaaa, bbbbbbbbbbbbbbbbbbbbbbbbbbbb, cccccccccccccccccccccccc, dddddddddddddddddddd, eeeeeeeeeeee)"}
Returns == {"return", "return a", "return f 's'", "return {1,2,}", "return a, 'b';", "return (f())"}

Kinds == {"assign", "call", "block", "misc"}
StmtSet(k) == CASE k = "assign" -> Assigns [] k = "call" -> CallStmts [] k = "block" -> Blocks [] k = "misc" -> Misc
AllStmts == Assigns \cup CallStmts \cup Blocks \cup Misc \cup Returns

\* ---------------------------------------------------------------------------------------------
\* comments and doc annotations
\* ---------------------------------------------------------------------------------------------
Leading == {"-- c", "--c", "--   spaced   out", "--[[ blk ]]", "--[==[ x ]] y ]==]", "--[[" \o NL \o "  multi" \o NL \o "    line" \o NL \o "]]",
            "---@type string", "---@type   table<string,   fun(a: number): string>",
            "---@param a string  the a" \o NL \o "---@param bb number the b",
            "---@return string, number", "---@return string name # the name",
            "---@class C: B" \o NL \o "---@field x number" \o NL \o "---@field private y string # why",
            "---@param chunk (fun(...): string) | X",
            "---@param f fun(a: string, b?: number): boolean, string",
            "--- desc" \o NL \o "--- ```lua" \o NL \o "---   local x  =  1" \o NL \o "---   if x then" \o NL \o "---       f()" \o NL \o "---   end" \o NL \o "--- ```",
            "---@alias A" \o NL \o "---| 'a' # first" \o NL \o "---| 'b' # second",
            "---@generic T" \o NL \o "---@param x T" \o NL \o "---@return T",
            "---@overload fun(a: string): number",
            "---@diagnostic disable-next-line: unused",
            "---@type {a: number, b: string}[]", "---@type 'a'|'b'|nil", "---@enum E", "---@cast a string",
            "---comment without space", "---   indented doc text", "--- @type string", "---@see other#thing",
            "---@param a string|nil # either" \o NL \o "--- continued description" \o NL \o "---@param ... any",
            "---@deprecated", "---@async", "---@nodiscard", "---@meta", "---@module 'x.y'", "---@version >5.2, JIT",
            "---@operator add(number): C", "---@field [string] number", "---@type fun(): (a: number, b: string)",
            "---@return (string|number)?", "---@type (string|number)[]", "---@param x (A|B) | C"}
Trailing == {" -- t", " --t", "  -- far", " ---@type T", " --[[ c ]]"}
Seps == {NL, ";" \o NL, "; ", " ", NL \o NL \o NL \o NL, NL \o "  "}

\* ---------------------------------------------------------------------------------------------
\* configurations: the formatter's option lattice (JSON shape of LuaFormatConfig)
\* ---------------------------------------------------------------------------------------------
Cfg(q, p, tr, semi, w, ind, al, dash, ex) ==
  [output  |-> [quote_style |-> q, single_arg_call_parens |-> p, trailing_comma |-> tr,
                preserve_statement_semicolon |-> semi],
   layout  |-> [max_line_width |-> w, table_expand |-> ex, call_args_expand |-> ex],
   indent  |-> IF ind = "tab" THEN [kind |-> "Tab", width |-> 4] ELSE [kind |-> "Space", width |-> IF ind = "s2" THEN 2 ELSE 4],
   align   |-> [continuous_assign_statement |-> al, table_field |-> al],
   comments |-> [align_line_comments |-> al, space_after_comment_dash |-> dash],
   emmy_doc |-> [align_tag_columns |-> al, space_after_description_dash |-> dash]]
Lattice == {Cfg(q, p, tr, semi, w, ind, al, dash, ex) :
              q \in {"Preserve", "Double", "Single"}, p \in {"Preserve", "Always", "Omit"},
              tr \in {"Never", "Multiline", "Always"}, semi \in BOOLEAN, w \in {120, 24},
              ind \in {"s4", "s2", "tab"}, al \in BOOLEAN, dash \in BOOLEAN, ex \in {"Auto", "Always"}}
Corners == {Cfg("Preserve", "Preserve", "Never", FALSE, 120, "s4", TRUE, TRUE, "Auto"),
            Cfg("Double", "Omit", "Never", FALSE, 24, "s2", FALSE, TRUE, "Auto"),
            Cfg("Single", "Always", "Always", TRUE, 120, "tab", TRUE, FALSE, "Always"),
            Cfg("Double", "Always", "Multiline", TRUE, 24, "s4", TRUE, TRUE, "Auto")}

\* ---------------------------------------------------------------------------------------------
Init ==
  IF Mode = "single"
  THEN /\ cfg \in Corners /\ n = 1 /\ done = TRUE /\ kinds = <<>> /\ lc = FALSE
       /\ prog \in AllStmts \cup {l \o NL \o "local v = f 's'" : l \in Leading}
                           \cup {"v = {1,2,}" \o t \o NL \o "w = 2" \o t : t \in Trailing}
  ELSE /\ cfg \in Lattice /\ prog = "" /\ n = 0 /\ done = FALSE /\ kinds = <<>> /\ lc = FALSE

SepsNL == {NL, ";" \o NL, NL \o NL \o NL \o NL, NL \o "  "}
Sep == IF lc THEN RandomElement(SepsNL) ELSE RandomElement(Seps)
Lead == IF RandomElement(1..3) = 1 THEN RandomElement(Leading) \o NL ELSE ""

AddStmt(k) ==
  /\ ~done /\ n < MaxStmts
  /\ \E t \in {IF RandomElement(1..4) = 1 THEN RandomElement(Trailing) ELSE ""} :   \* bound once
       /\ prog' = prog \o (IF n = 0 THEN "" ELSE Sep) \o Lead \o RandomElement(StmtSet(k)) \o t
       /\ lc' = (t # "" /\ t # " --[[ c ]]")
  /\ n' = n + 1 /\ kinds' = Append(kinds, k)
  /\ UNCHANGED <<cfg, done>>

Finish ==
  /\ ~done /\ n >= 1
  /\ prog' = prog \o (IF RandomElement(1..3) = 1 THEN Sep \o Lead \o RandomElement(Returns) ELSE "")
                  \o RandomElement({"", NL, NL \o NL, NL \o "-- end", NL \o Lead})
  /\ done' = TRUE
  /\ UNCHANGED <<n, cfg, kinds, lc>>

Next == (\E k \in Kinds : AddStmt(k)) \/ Finish
Spec == Init /\ [][Next]_vars

Emit == done => PrintT(<<"CASE", ToJson([text |-> prog, cfg |-> cfg, n |-> n, kinds |-> kinds])>>)
=============================================================================
