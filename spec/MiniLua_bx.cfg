SPECIFICATION BuildSpec
CONSTANTS
  Vars = {"x"}
  Lits = {"nil", "false", "s"}
  Opaques = {"opaque", "opaque_any"}
  TypeNames = {"nil"}
  AtomKinds = {"truthy", "eqnil", "type"}
  Shapes = {"A"}
  OuterNot = {FALSE}
  ForBounds = {"?"}
  LoopKinds = {}
  MaxLen = 6
  MaxIter = 2
  Loops = "none"
INVARIANTS Emit
