SPECIFICATION Spec
CONSTANTS
  NPaths = 4
  Contents = {"CyMemInt_a", "CyMemInt_b", "CyMemInt_c", "CyMemStr_a", "CyMemStr_b", "CyMemStr_c",
              "CyGStr_a", "CyGStr_b", "CyGStr_c", "CyFldInt_a", "CyFldInt_b", "CyFldInt_c", "ClsTab", "UseCy"}
  Ops = {}
  MaxSteps = 0
  EditDist = 4
  Batch = TRUE
  EmitSel = "all"
VIEW View
INVARIANTS Confluent Emit
