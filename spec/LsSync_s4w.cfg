SPECIFICATION Spec
VIEW view
CONSTANTS
  Uris = {"u1"}
  Texts = {"t1","t2"}
  MaxMsgs = 3
  MsgKinds = {"open","change","close","watch"}
  MaxCfg = 0
  MaxDisk = 0
  OnDisk = {"u1"}
  InlineOpen = TRUE
  InlineChange = TRUE
  InlineClose = TRUE
  EnableReindex = FALSE
  InitOpen = {}
  Outside = {}
  CfgAddsLib = FALSE
  RenameClears = TRUE
INVARIANTS Emit
