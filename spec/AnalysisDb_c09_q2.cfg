SPECIFICATION Spec
CONSTANTS
  NPaths = 2
  Contents = {"Enum", "GInt", "UseFoo", "ClsDoc"}
  Ops = {"update", "unset", "remove", "reindex"}
  MaxSteps = 3
  EditDist = 3
  Batch = FALSE
  EmitSel = "reindex"
VIEW View
INVARIANTS ReindexIsIdeal NoLeak Emit
