SPECIFICATION Spec
CONSTANTS
  MaxCalls = 5
  GenKinds = {"Block", "Comment", "MLUnion", "DocDesc", "Other"}
  GenToks = {"ws", "cont", "plain"}
INVARIANTS Safe
