SPECIFICATION Spec
CONSTANTS
  MaxCalls = 6
  GenKinds = {"Block", "Other"}
  GenToks = {"ws", "plain"}
INVARIANTS NeedsNoCrossing
