SPECIFICATION Spec
CONSTANTS
  Files = {"f1", "f2"}
  Snippets = {"s1", "s2", "s4", "s5", "s6", "s9"}
  Levels = {"Lua51", "Lua55"}
  MaxSteps = 4
  KeyByTextOnly = FALSE
VIEW view
INVARIANTS CacheTransparent CacheSound Emit
