SPECIFICATION Spec
CONSTANTS
  Mode = "gen"
  MaxLen = 4
  AllCursors = FALSE
  Glue = {"sp", "nl", "ind", "blank"}
  ParamMax = 2
INVARIANTS Emit
