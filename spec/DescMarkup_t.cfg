SPECIFICATION Spec
CONSTANTS
  Mode = "gen"
  MaxLen = 4
  AllCursors = FALSE
  Glue = {"sp", "nl", "ind", "blank"}
  ParamMax = 2
  LOpen = {"star", "star2", "us", "us2", "tick", "tick2", "linkopen", "roleopen", "mystopen", "lt"}
  LFill = {"txt", "mb", "sp"}
  LSpan = {"code", "link", "mystrole", "role", "math", "javadoc", "em", "strong", "autolink", "rstlink", "html"}
  LSep = {"nl", "ind", "blank"}
  LFollow = {"txt", "mb", "heading", "code", "em", "list", "row", "star"}
INVARIANTS Emit
