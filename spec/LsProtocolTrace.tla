--------------------------- MODULE LsProtocolTrace ---------------------------
(* Trace validation of recorded client/server message streams against LsProtocol (C24, C25, C26).

   The log (NDJSON, path in the environment variable TRACE) is the concatenation of many runs:
     {"e":"reset","phase":"ready"|"pre"}           a fresh server (in-process session / new process)
     {"e":"csend","m":{"k":..,"id":..,"cls":..}}   the client wrote message m (ids renumbered 1..n in
                                                   sending order per run; cls "valid" = well-formed params)
     {"e":"ssend","id":i,"r":"ok"|"err-<code>"}    the client read a response for request i
     {"e":"quiesce"}                               the recorder claims that the server has nothing left to
                                                   do (in-process: stable under the deterministic
                                                   scheduler; stdio: all answered / process gone / idle)
     {"e":"exit"}                                  the server process ended
   Everything the server does between two log lines is a silent step of the permissive implementation
   model (LsProtocol with every code-dependent choice left open), so any stream the real dispatch code
   can produce is explained; which choice was taken is recorded by LsProtocol in how.  The C24
   predicate itself (exactly one response per request id at quiescence, none for unknown ids) is not
   a TLC INVARIANT here because one TLC call judges thousands of runs and must not stop at the first
   bad one: at every quiesce line the predicate is evaluated and printed as a VERDICT line, together
   with the explanation labels that key the finding.  Responses the model cannot explain at all
   (a second answer, an answer to an id that was never sent) are consumed by TDup / TOrphan, which mark
   the id so that the verdict reports them.                                                        *)
EXTENDS Naturals, Sequences, FiniteSets, TLC, Json, IOUtils

CONSTANTS MaxReqsT

VARIABLES l, phase, cstate, wire, nmsg, nreq, pending, st, outcome, tokens, cancelled, resp, how, hist

P == INSTANCE LsProtocol WITH
       MaxMsgs <- 1000000, MaxReqs <- MaxReqsT,
       StartPhases <- {"pre", "ready"},
       Kinds <- {"req", "cancel", "notif", "resp", "initialize", "initialized", "shutdown", "exit", "any"},
       BadParams <- {"drop", "error"}, Panic <- {"silent", "error"},
       BadInit <- {"die", "error"}, PostShutdown <- {"die", "error"},
       CancelDesign <- "flag",
       SyncWire <- FALSE

pvars == <<phase, cstate, wire, nmsg, nreq, pending, st, outcome, tokens, cancelled, resp, how, hist>>

\* the log is parsed once (TLC re-evaluates a plain definition over IOEnv on every access)
ASSUME TLCSet(2, ndJsonDeserialize(IOEnv.TRACE))
Log == TLCGet(2)
N == Len(Log)
Ev == Log[l]
IsEv(n) == l <= N /\ Ev.e = n

Fresh(p) ==
  /\ phase' = p
  /\ cstate' = IF p = "pre" THEN "start" ELSE "run"
  /\ wire' = <<>> /\ pending' = <<>> /\ nmsg' = 0 /\ nreq' = 0
  /\ st' = [i \in P!Ids |-> "unseen"]
  /\ outcome' = [i \in P!Ids |-> "-"]
  /\ tokens' = {} /\ cancelled' = {}
  /\ resp' = [i \in P!Ids |-> <<>>]
  /\ how' = [i \in P!Ids |-> "-"]
  /\ hist' = <<>>

Init ==
  /\ l = 1
  /\ P!InitWith("ready")
  /\ hist = <<>>

TReset == IsEv("reset") /\ Fresh(Ev.phase) /\ l' = l + 1

\* what the recorder knows about a request is whether its params were well-formed, not what the
\* handler will do with them; a method whose params are all optional accepts absent params
Expand(m) ==
  IF m.k = "req" /\ m.cls = "valid" THEN {[m EXCEPT !.cls = "any"]}
  ELSE IF m.k = "req" /\ m.cls = "missing" THEN {m, [m EXCEPT !.cls = "any"]}
  ELSE {m}

TCSend == /\ IsEv("csend")
          /\ \E m \in Expand(Ev.m) : P!ClientSend(m)
          /\ l' = l + 1

MainStep == P!SrvRecv \/ P!InitDone \/ P!SrvDrain
TaskStep == \E id \in P!Ids : P!TaskRespond(id) \/ P!TaskPanic(id, "error")
\* The wrapper task removing its cancellation entry after it has answered is never visible in the stream,
\* and with CancelDesign = "flag" its timing has no observable consequence (a cancel that still finds the
\* entry only flags a token nobody reads any more).  It is therefore taken at once (Next), which keeps one
\* explanation per stream; a second answer caused by a cancel in that window is what TDup reports.
RemoveNow == (\E id \in P!Ids : P!TaskRemove(id)) /\ UNCHANGED l
Eager == P!Responded # {} /\ phase # "dead"
SrvStep == MainStep \/ TaskStep

\* unlogged steps: the main loop reading / draining without answering, and tasks that died without
\* answering.  When a task died is unobservable, so it is only placed right before the recorder's claim
\* that nothing is left to do (smallest search space, same explanations).
Silent == /\ \/ MainStep
             \/ (IsEv("quiesce") \/ IsEv("exit")) /\ \E id \in P!Ids : P!TaskPanic(id, "silent")
          /\ resp' = resp /\ UNCHANGED l

TSSend == /\ IsEv("ssend")
          /\ Ev.id \in P!Ids
          /\ SrvStep
          /\ resp' = [resp EXCEPT ![Ev.id] = Append(@, Ev.r)]
          /\ l' = l + 1

\* responses no branch of the code explains; kept so that the verdict can report them
TDup == /\ IsEv("ssend") /\ Ev.id \in P!Ids
        /\ st[Ev.id] = "done" /\ Len(resp[Ev.id]) >= 1
        /\ resp' = [resp EXCEPT ![Ev.id] = Append(@, Ev.r)]
        /\ how' = [how EXCEPT ![Ev.id] = "duplicate"]
        /\ l' = l + 1
        /\ UNCHANGED <<phase, cstate, wire, nmsg, nreq, pending, st, outcome, tokens, cancelled, hist>>

TOrphan == /\ IsEv("ssend") /\ Ev.id \in P!Ids
           /\ st[Ev.id] = "unseen"
           /\ resp' = [resp EXCEPT ![Ev.id] = Append(@, Ev.r)]
           /\ how' = [how EXCEPT ![Ev.id] = "orphan"]
           /\ l' = l + 1
           /\ UNCHANGED <<phase, cstate, wire, nmsg, nreq, pending, st, outcome, tokens, cancelled, hist>>

Touched == {i \in P!Ids : st[i] # "unseen" \/ Len(resp[i]) > 0}
Verdict ==
  [l |-> l, phase |-> phase,
   ids |-> [i \in 1..Cardinality(Touched) |->
              LET id == CHOOSE x \in Touched : Cardinality({y \in Touched : y < x}) = i - 1 IN
              [id |-> id, n |-> Len(resp[id]), r |-> resp[id], how |-> how[id], st |-> st[id]]],
   exactlyOne |-> \A id \in P!Ids : P!Sent(id) => Len(resp[id]) = 1,
   noOrphan |-> P!NoOrphan,
   leaked |-> Cardinality(tokens \ P!Running)]

TQuiesce == /\ IsEv("quiesce")
            /\ P!ServerIdle
            /\ PrintT(<<"VERDICT", ToJson(Verdict)>>)
            /\ l' = l + 1
            /\ UNCHANGED pvars

TExit == /\ IsEv("exit")
         /\ phase \in {"exited", "dead"}
         /\ l' = l + 1
         /\ UNCHANGED pvars

Next == IF Eager THEN RemoveNow
        ELSE TReset \/ TCSend \/ Silent \/ TSSend \/ TDup \/ TOrphan \/ TQuiesce \/ TExit

Spec == Init /\ [][Next]_<<l, pvars>>
\* the action history of LsProtocol is not needed to judge a log
tview == <<l, phase, cstate, wire, nmsg, nreq, pending, st, outcome, tokens, cancelled, resp, how>>

\* the whole log has been explained as soon as this "invariant" is violated
NotAccepted == l <= N
\* progress high-water mark, reported when the log is not accepted
ASSUME TLCSet(1, 0)
HighWater == TLCSet(1, IF l > TLCGet(1) THEN l ELSE TLCGet(1))
Report == PrintT(<<"HW", ToJson([hw |-> TLCGet(1), n |-> N])>>)
=============================================================================
