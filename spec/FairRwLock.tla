----------------------------- MODULE FairRwLock -----------------------------
(* The lock semantics LsLocks.tla and LsSync.tla assume for tokio::sync::RwLock (and Mutex = a lock
   with writers only): requests are served strictly in arrival order; a reader is admitted when no writer
   holds the lock AND it is at the head of the queue (so a reader that arrives behind a waiting writer
   waits although the lock is only read-held); a writer is admitted at the head when nobody holds.

   This module is bound to the real tokio primitives: TLC enumerates every sequence of Request / Release
   actions of N tasks (each task requests once, in a mode chosen nondeterministically), with the set of
   holders after each action; harness vh_ls_fairlock plays each sequence on a real tokio::sync::RwLock
   and compares the holder sets.                                                                      *)
EXTENDS Naturals, Sequences, FiniteSets, TLC, Json

CONSTANT N
Tasks == 1..N

VARIABLES mode, st, queue, hist
vars == <<mode, st, queue, hist>>
view == <<mode, st, queue>>

Holders(s) == {t \in Tasks : s[t] = "holding"}
Writers(s) == {t \in Holders(s) : mode[t] = "W"}

\* admit from the head of the queue as long as possible
RECURSIVE Admit(_, _)
Admit(q, s) ==
  IF q = <<>> THEN <<q, s>>
  ELSE LET h == Head(q) IN
       IF mode[h] = "R" /\ Writers(s) = {} THEN Admit(Tail(q), [s EXCEPT ![h] = "holding"])
       ELSE IF mode[h] = "W" /\ Holders(s) = {} THEN <<Tail(q), [s EXCEPT ![h] = "holding"]>>
       ELSE <<q, s>>

Init == /\ mode \in [Tasks -> {"R", "W"}]
        /\ st = [t \in Tasks |-> "idle"]
        /\ queue = <<>>
        /\ hist = <<>>

Request(t) == /\ st[t] = "idle"
              /\ LET r == Admit(Append(queue, t), [st EXCEPT ![t] = "waiting"]) IN
                 /\ queue' = r[1] /\ st' = r[2]
                 /\ hist' = Append(hist, [a |-> "req", t |-> t, m |-> mode[t], holders |-> Holders(r[2])])
              /\ UNCHANGED mode

Release(t) == /\ st[t] = "holding"
              /\ LET r == Admit(queue, [st EXCEPT ![t] = "done"]) IN
                 /\ queue' = r[1] /\ st' = r[2]
                 /\ hist' = Append(hist, [a |-> "rel", t |-> t, m |-> mode[t], holders |-> Holders(r[2])])
              /\ UNCHANGED mode

Next == \E t \in Tasks : Request(t) \/ Release(t)
Spec == Init /\ [][Next]_vars

\* sanity of the model itself
Exclusive == \A t \in Writers(st) : Holders(st) = {t}
NoStarvationShape == \A t \in Tasks : st[t] = "waiting" => \E i \in 1..Len(queue) : queue[i] = t
AllDone == \A t \in Tasks : st[t] = "done"
Emit == AllDone => PrintT(<<"BEHAVIOUR", ToJson(hist)>>)
=============================================================================
