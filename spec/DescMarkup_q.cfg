SPECIFICATION Spec
CONSTANTS
  Mode = "gen"
  MaxLen = 3
  AllCursors = FALSE
  Glue = {"sp", "nl"}
  ParamMax = 2
INVARIANTS Emit
