SPECIFICATION Spec
CONSTANTS
  Mode = "gen"
  MaxLen = 3
  AllCursors = FALSE
  Glue = {"sp", "nl"}
  ParamMax = 2
  LOpen = {"star", "star2", "us", "us2", "tick", "tick2", "linkopen", "roleopen", "mystopen", "lt"}
  LFill = {"txt"}
  LSpan = {"code", "link", "mystrole", "role", "math", "javadoc", "em", "strong", "autolink", "rstlink", "html"}
  LSep = {"nl", "blank"}
  LFollow = {"txt", "heading", "code"}
INVARIANTS Emit
