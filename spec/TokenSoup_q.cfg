SPECIFICATION Spec
CONSTANTS
  ExhLen = 2
  CoreLen = 3
  SampleLens = {3, 4, 5, 6}
  SampleCount = 120
INVARIANTS Emit
