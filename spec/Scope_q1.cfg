\* quick, second exhaustive part: every program of <= 3 generated items over ONE name without closure
\* expressions, nesting <= 3 (shadowing of one name across blocks is where the scope rules bite)
SPECIFICATION Spec
CONSTANTS
  NameSeq <- NamesA
  Rich = FALSE
  MaxItems = 3
  MaxDepth = 3
  MinEmit = 3
  EmitMod = 1
  ForNumKind = "ForRange"
  LoaOrder = "reverse"
  CheckAgree = TRUE
INVARIANTS SameSites Agree Emit
