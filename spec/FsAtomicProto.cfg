SPECIFICATION Spec
CONSTANT Script <- All
INVARIANT Emit
POSTCONDITION Consumed
