\* quick: every layout of <= 4 generated rows
SPECIFICATION Spec
CONSTANTS
  MaxRows = 4
  MaxDepth = 2
  EmitMod = 1
  Overlap = "proper"
  EmptyBlockOwner = "parent"
  CheckAgree = TRUE
  TwoComments = FALSE
INVARIANTS CodedEqStated Emit
