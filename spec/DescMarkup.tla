------------------------------ MODULE DescMarkup ------------------------------
(* Doc-comment markup highlighting is total and in bounds (C37).  A THIN use of TLA+: this module is
   (1) the bounded GENERATOR of doc-comment bodies as sequences of markup atoms and of cursor positions
   and (2) the RESULT PREDICATES that judge what the real `emmylua_parser_desc::parse` returned.  There
   is no reference semantics of Markdown / MyST / reStructuredText here.

   Mode = "gen":   TLC enumerates every body (sequence of atoms within the bounds), every comment form
                   (plain `--- text` comment, description of a `---@param` tag) and the cursor
                   boundaries, and prints one case per state (plus the "lines" family of multi-line
                   bodies, see LineBodies).  An atom is a fragment of markup syntax,
                   terminated or not, some with multi-byte text; <nl> starts a new comment line,
                   <e2>/<e4> stand for a 2-byte / 4-byte character (the glue substitutes them).
   Mode = "judge": the harness has recorded, for every case x description node x flavour x cursor, either
                   a panic or the returned items; TLC reads the records (IOEnv.DESC_RESULTS), makes each
                   record an initial state and evaluates NoPanic, InBounds, Sorted on it; every record
                   that fails one is printed as a VERDICT.  The number of distinct states must equal the
                   number of records (nothing is skipped).                                               *)
EXTENDS Integers, Sequences, FiniteSets, TLC, Json, IOUtils

CONSTANTS Mode,        \* "gen" | "judge"
          MaxLen,      \* bodies of up to MaxLen - 1 arbitrary atoms, and of MaxLen atoms whose inner atoms are glue
          AllCursors,  \* TRUE: a cursor at every atom boundary; FALSE: no cursor and a cursor at the end
          Glue,        \* the atoms allowed inside a body of full length, e.g. {"sp", "nl"}
          ParamMax,    \* the `---@param` form is generated for bodies of at most this many atoms
          \* the "lines" family (multi-line bodies whose first line leaves inline state behind, see LineBodies)
          LOpen,       \* unterminated openers
          LFill,       \* text atoms that may stand between the opener and the span
          LSpan,       \* closed inline spans
          LSep,        \* line separators
          LFollow      \* what the following line starts with

VARIABLES body, form, idx
vars == <<body, form, idx>>

AtomText(a) ==
  CASE a = "txt" -> "word"            [] a = "mb" -> "<e2><e4>"           [] a = "sp" -> " "
    [] a = "nl" -> "<nl>"             [] a = "ind" -> "<nl>    "          [] a = "blank" -> "<nl><nl>"
    [] a = "fence" -> "```"           [] a = "fencelua" -> "```lua"       [] a = "tfence" -> "~~~"
    [] a = "star" -> "*"              [] a = "star2" -> "**"              [] a = "us" -> "_"
    [] a = "tick" -> "`"              [] a = "tick2" -> "``"
    [] a = "em" -> "*a<e2>*"          [] a = "strong" -> "**b**"          [] a = "code" -> "`c<e2>`"
    [] a = "link" -> "[t](http://x)"  [] a = "linkopen" -> "[t]("         [] a = "refdef" -> "[t]: http://x"
    [] a = "autolink" -> "<http://x>" [] a = "html" -> "<b>"              [] a = "lt" -> "<"
    [] a = "role" -> ":lua:obj:`a.b`" [] a = "roleopen" -> ":ref:`a"      [] a = "mystrole" -> "{lua:obj}`a.b`"
    [] a = "directive" -> ".. code-block:: lua"                           [] a = "note" -> ".. note::"
    [] a = "mystdir" -> "```{note}"   [] a = "rstlink" -> "`t <http://x>`_"
    [] a = "rstref" -> "t_"           [] a = "colons" -> "::"
    [] a = "row" -> "| a | <e2> |"    [] a = "rowsep" -> "|---|---|"
    [] a = "heading" -> "# H"         [] a = "rsthead" -> "===="          [] a = "quote" -> "> q"
    [] a = "list" -> "- i"            [] a = "olist" -> "1. i"
    [] a = "javadoc" -> "{@link a.b}" [] a = "at" -> "@"                  [] a = "bslash" -> "\\"
    [] a = "dashes" -> "-----"
    \* atoms used by the "lines" family only
    [] a = "us2" -> "__"              [] a = "math" -> "$x$"              [] a = "mystopen" -> "{lua:obj}`a"
    [] a = "see" -> "see "

Atoms == {"txt", "mb", "sp", "nl", "ind", "blank", "fence", "fencelua", "tfence", "star", "star2", "us", "tick",
          "tick2", "em", "strong", "code", "link", "linkopen", "refdef", "autolink", "html", "lt", "role", "roleopen",
          "mystrole", "directive", "note", "mystdir", "rstlink", "rstref", "colons", "row", "rowsep", "heading",
          "rsthead", "quote", "list", "olist", "javadoc", "at", "bslash", "dashes"}
Forms == {"plain", "param"}

Bodies == UNION {[1..n -> Atoms] : n \in 1..(MaxLen - 1)}
          \cup {b \in [1..MaxLen -> Atoms \cup Glue] : \A i \in 2..(MaxLen - 1) : b[i] \in Glue}

(* The "lines" family: bodies of at least two comment lines whose FIRST line carries inline-parser state to its
   very end: an unterminated opener (emphasis / code / link / role that is never closed on that line) combined
   with a closed inline span that is the last thing on the line -- opener before the span (optionally with text
   in between, optionally after leading text) or the span before a line-final opener -- followed by a line
   separator and a further line with inline content.  Per-line state that a parser forgets to reset (or resets
   only on some path, e.g. only when plain text trails the last span) shows on the following line.          *)
LineBodies ==
       {<<o, s, g, f>> : o \in LOpen, s \in LSpan, g \in LSep, f \in LFollow}
  \cup {<<o, t, s, g, f>> : o \in LOpen, t \in LFill, s \in LSpan, g \in LSep, f \in LFollow}
  \cup {<<"see", o, t, s, g, f>> : o \in LOpen, t \in LFill, s \in LSpan, g \in LSep, f \in LFollow}
  \cup {<<s, "sp", o, g, f>> : o \in LOpen, s \in LSpan, g \in LSep, f \in LFollow}
AllBodies == Bodies \cup LineBodies

Cursors(b) == IF AllCursors THEN {-1} \cup (0..Len(b)) ELSE {-1, Len(b)}

----------------------------------------------------------------------------------------------------
\* result predicates.  A record: [id, flavour, cursor, panic, msg, lo, hi, items], item = <<start, end, onCharBoundary>>
NoPanic(r) == r.panic = 0
InBounds(r) == \A i \in 1..Len(r.items) :
                 /\ r.lo <= r.items[i][1]
                 /\ r.items[i][1] <= r.items[i][2]
                 /\ r.items[i][2] <= r.hi
Sorted(r) == \A i \in 1..(Len(r.items) - 1) : r.items[i][1] <= r.items[i + 1][1]
\* not demanded by the statement, reported separately: both ends of every range are character boundaries
OnCharBoundaries(r) == \A i \in 1..Len(r.items) : r.items[i][3] = 1

Rec == IF Mode = "judge" THEN ndJsonDeserialize(IOEnv.DESC_RESULTS) ELSE <<>>

Init == IF Mode = "gen" THEN body \in AllBodies /\ form \in Forms /\ (form = "param" => Len(body) <= ParamMax) /\ idx = 0
        ELSE body = <<>> /\ form = "" /\ idx \in 1..Len(Rec)
Next == UNCHANGED vars
Spec == Init /\ [][Next]_vars

Emit == Mode = "gen" =>
  PrintT(<<"CASE", ToJson([atoms |-> body, form |-> form, parts |-> [i \in 1..Len(body) |-> AtomText(body[i])],
                           cursors |-> Cursors(body)])>>)

Judge == Mode = "judge" =>
  LET r == Rec[idx] IN
  \/ NoPanic(r) /\ InBounds(r) /\ Sorted(r) /\ OnCharBoundaries(r)
  \/ PrintT(<<"VERDICT", ToJson([idx |-> idx, id |-> r.id, flavour |-> r.flavour, cursor |-> r.cursor,
                                 nopanic |-> NoPanic(r), inbounds |-> NoPanic(r) => InBounds(r),
                                 sorted |-> NoPanic(r) => Sorted(r), charb |-> NoPanic(r) => OnCharBoundaries(r)])>>)
=============================================================================
