SPECIFICATION Spec
CONSTANTS MaxReqsT = 12
VIEW tview
INVARIANTS HighWater
POSTCONDITION Report
