SPECIFICATION Spec
CONSTANTS
  Versions = {"Lua51", "Lua52", "Lua53", "Lua54", "Lua55", "LuaJIT2"}
  MaxTokens = 5
  Rich = TRUE
  CorruptMax = 4
INVARIANTS Emit
