SPECIFICATION Spec
CONSTANTS
  NPaths = 3
  Contents = {"GenBox", "BoxExt", "UseBox", "GenAlias", "ClsOp", "UseOp"}
  Ops = {"update", "reindex"}
  MaxSteps = 4
  EditDist = 1
  Batch = FALSE
  EmitSel = "same"
VIEW View
INVARIANTS ReindexIsIdeal NoLeak C08_Model Emit
