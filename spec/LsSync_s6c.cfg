SPECIFICATION Spec
VIEW view
CONSTANTS
  Uris = {"u1"}
  Texts = {"t1","t2"}
  MaxMsgs = 2
  MsgKinds = {"change","close","cfg"}
  MaxCfg = 1
  MaxDisk = 0
  OnDisk = {}
  InlineOpen = TRUE
  InlineChange = TRUE
  InlineClose = TRUE
  EnableReindex = FALSE
  InitOpen = {"u1"}
  Outside = {"u1"}
  CfgAddsLib = TRUE
INVARIANTS Emit
