SPECIFICATION Spec
CONSTANTS
  NPaths = 3
  Contents = {"ClsDoc", "ClsPlain", "GInt", "GStr", "ReqB", "ReqA", "UseFoo"}
  Ops = {}
  MaxSteps = 0
  EditDist = 3
  Batch = TRUE
  EmitSel = "all"
VIEW View
INVARIANTS Confluent Emit
