SPECIFICATION Spec
