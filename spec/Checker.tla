------------------------------- MODULE Checker -------------------------------
(* Operational model of `emmylua_check` (C36): crates/emmylua_check/src/lib.rs `run_check` and
   crates/emmylua_check/src/output/mod.rs `output_result`, one action per step that another
   thread can interleave with.

     main        : for file in need_check_files { clone sender; tokio::spawn(task) }   Spawn(f)
                   drop(sender)                                                         DropMain
                   output_result(total_count = |need_check_files|, receiver, ...)       consumer
     task(f)     : d = analysis.diagnose_file(f)      -> None | Some(list) | panic      Diagnose(f,o)
                   sender.send((f, d)).await.unwrap()  (bounded mpsc, capacity `cap`)   Send(f) / SendFail(f)
                   task ends => its sender clone is dropped
     consumer    : while let Some((f, d)) = receiver.recv().await {                     Recv / RecvClosed
                       count += 1
                       if let Some(d) = d { retain(filter); count severities; has_error; writer.write(f, d) }
                       if count == total_count { break }
                   }
                   writer.finish(); summary; return if has_error {1} else {0}           Finish

   TLC explores every interleaving of N tasks x every outcome per task x channel capacity x filter x
   --warnings-as-errors and checks that the consumer always terminates with exactly the report and
   exit status that CheckerRef defines declaratively, independent of the schedule.  The same
   declarative definitions produce the expected values of the black-box cases (CheckerCases.tla). *)
EXTENDS Naturals, Sequences, FiniteSets, TLC, CheckerRef

CONSTANTS Files,       \* main-workspace files (need_check_files)
          Lists,       \* severity sequences a diagnose task may return inside Some(..)
          Caps,        \* channel capacities explored (the code uses 100; what matters is cap vs N)
          Filters,     \* subset of 0..4
          AllowPanic   \* TRUE: a diagnose task may panic (tokio catches it; the task never sends)

VARIABLES cap, flt, wae,       \* run parameters, chosen in Init
          tpc,                 \* per task: "unspawned" | "spawned" | "diagnosed" | "done" | "panicked"
          res,                 \* per task: outcome of diagnose_file ("pending" before)
          chan,                \* mpsc queue of <<file, outcome>>
          mainSender,          \* the original Sender is still alive
          cpc,                 \* consumer/main pc: "spawn" | "loop" | "finish" | "exit"
          count, hasError,
          nsev,                \* [1..4 -> Nat] error/warning/info/hint counters (text summary)
          written,             \* writer log: sequence of <<file, filtered list>>
          finished,            \* writer.finish() called
          exit                 \* process exit status, 2 = not yet

\* outcome alphabets for the .cfg files (Lists <- ListsQ / ListsT)
ListsQ == {<<>>, <<1>>, <<2>>, <<3>>, <<2, 1>>}
ListsT == {<<>>, <<1>>, <<2>>, <<3>>, <<4>>, <<2, 1>>, <<4, 2>>}

vars == <<cap, flt, wae, tpc, res, chan, mainSender, cpc, count, hasError, nsev, written, finished, exit>>

NoneO == [k |-> "none", l |-> <<>>]
PanicO == [k |-> "panic", l |-> <<>>]
SomeO(l) == [k |-> "some", l |-> l]
Outcomes == {NoneO} \cup {SomeO(l) : l \in Lists} \cup (IF AllowPanic THEN {PanicO} ELSE {})
Pending == [k |-> "pending", l |-> <<>>]

Total == Cardinality(Files)

Init == /\ cap \in Caps /\ flt \in Filters /\ wae \in BOOLEAN
        /\ tpc = [f \in Files |-> "unspawned"]
        /\ res = [f \in Files |-> Pending]
        /\ chan = <<>>
        /\ mainSender = TRUE
        /\ cpc = "spawn"
        /\ count = 0 /\ hasError = FALSE
        /\ nsev = [s \in Sevs |-> 0]
        /\ written = <<>> /\ finished = FALSE /\ exit = 2

\* a task owns a clone of the sender from the moment it is spawned until it ends
TaskAlive(f) == tpc[f] \in {"spawned", "diagnosed"}
SendersAlive == mainSender \/ \E f \in Files : TaskAlive(f)
ReceiverAlive == cpc \in {"spawn", "loop"}

Spawn(f) == /\ cpc = "spawn" /\ tpc[f] = "unspawned"
            /\ tpc' = [tpc EXCEPT ![f] = "spawned"]
            /\ UNCHANGED <<cap, flt, wae, res, chan, mainSender, cpc, count, hasError, nsev, written, finished, exit>>

DropMain == /\ cpc = "spawn" /\ \A f \in Files : tpc[f] # "unspawned"
            /\ mainSender' = FALSE /\ cpc' = "loop"
            /\ UNCHANGED <<cap, flt, wae, tpc, res, chan, count, hasError, nsev, written, finished, exit>>

Diagnose(f, o) == /\ tpc[f] = "spawned"
                  /\ res' = [res EXCEPT ![f] = o]
                  /\ tpc' = [tpc EXCEPT ![f] = IF o.k = "panic" THEN "panicked" ELSE "diagnosed"]
                  /\ UNCHANGED <<cap, flt, wae, chan, mainSender, cpc, count, hasError, nsev, written, finished, exit>>

Send(f) == /\ tpc[f] = "diagnosed" /\ ReceiverAlive /\ Len(chan) < cap
           /\ chan' = Append(chan, <<f, res[f]>>)
           /\ tpc' = [tpc EXCEPT ![f] = "done"]
           /\ UNCHANGED <<cap, flt, wae, res, mainSender, cpc, count, hasError, nsev, written, finished, exit>>

\* send on a closed channel: Err -> unwrap panics inside the task; the result is lost
SendFail(f) == /\ tpc[f] = "diagnosed" /\ ~ReceiverAlive
               /\ tpc' = [tpc EXCEPT ![f] = "panicked"]
               /\ UNCHANGED <<cap, flt, wae, res, chan, mainSender, cpc, count, hasError, nsev, written, finished, exit>>

Recv == /\ cpc = "loop" /\ chan # <<>>
        /\ LET f == chan[1][1]
               o == chan[1][2]
               kept == KeepSevs(o.l, flt)
           IN /\ chan' = Tail(chan)
              /\ count' = count + 1
              /\ IF o.k = "some"
                   THEN /\ hasError' = (hasError \/ \E i \in DOMAIN kept : IsFailing(kept[i], wae))
                        /\ nsev' = [s \in Sevs |-> nsev[s] + CountSev(kept, s)]
                        /\ written' = Append(written, <<f, kept>>)
                   ELSE UNCHANGED <<hasError, nsev, written>>
              /\ cpc' = IF count + 1 = Total THEN "finish" ELSE "loop"
        /\ UNCHANGED <<cap, flt, wae, tpc, res, mainSender, finished, exit>>

\* recv() returns None: queue empty and every sender dropped
RecvClosed == /\ cpc = "loop" /\ chan = <<>> /\ ~SendersAlive
              /\ cpc' = "finish"
              /\ UNCHANGED <<cap, flt, wae, tpc, res, chan, mainSender, count, hasError, nsev, written, finished, exit>>

Finish == /\ cpc = "finish"
          /\ finished' = TRUE
          /\ exit' = IF hasError THEN 1 ELSE 0
          /\ cpc' = "exit"
          /\ UNCHANGED <<cap, flt, wae, tpc, res, chan, mainSender, count, hasError, nsev, written>>

\* the process has exited and every task has ended: the only state in which nothing else is enabled.
\* With this explicit stuttering step TLC's deadlock check reports every OTHER stuck state (e.g. a
\* consumer waiting forever on recv()).  Every other action strictly increases the progress measure
\* (#spawned + #diagnosed + #ended tasks + count + pc rank), so deadlock-freedom = termination.
Done == /\ cpc = "exit" /\ \A f \in Files : tpc[f] \in {"done", "panicked"}
        /\ UNCHANGED vars

Next == \/ \E f \in Files : Spawn(f) \/ Send(f) \/ SendFail(f) \/ \E o \in Outcomes : Diagnose(f, o)
        \/ DropMain \/ Recv \/ RecvClosed \/ Finish \/ Done

Perms == Permutations(Files)

Spec == Init /\ [][Next]_vars /\ WF_vars(Next)

-----------------------------------------------------------------------------
TypeOK == /\ cap \in Caps /\ flt \in Filters /\ wae \in BOOLEAN
          /\ tpc \in [Files -> {"unspawned", "spawned", "diagnosed", "done", "panicked"}]
          /\ \A f \in Files : res[f] \in Outcomes \cup {Pending}
          /\ Len(chan) <= cap
          /\ cpc \in {"spawn", "loop", "finish", "exit"}
          /\ count \in 0..Total /\ exit \in {0, 1, 2}

\* ---- the declarative expectation (CheckerRef) -----------------------------------------------
SomeFiles == {f \in Files : res[f].k = "some"}
ExpectedExit == ExitOfLists({res[f].l : f \in SomeFiles}, flt, wae)
WrittenOf(f) == {i \in DOMAIN written : written[i][1] = f}

RECURSIVE SumKept(_, _)
SumKept(S, s) == IF S = {} THEN 0 ELSE
                   LET x == CHOOSE x \in S : TRUE IN CountSev(KeepSevs(res[x].l, flt), s) + SumKept(S \ {x}, s)

\* C36 at the end of every behaviour: each file's (filtered) list was written exactly once, nothing else
\* was written, the counters and the exit status are those of the reference, nothing is left in flight.
ExitCorrect == cpc = "exit" =>
   /\ finished
   /\ exit = ExpectedExit
   /\ \A f \in Files : IF f \in SomeFiles
                         THEN /\ Cardinality(WrittenOf(f)) = 1
                              /\ \A i \in WrittenOf(f) : written[i][2] = KeepSevs(res[f].l, flt)
                         ELSE WrittenOf(f) = {}
   /\ \A s \in Sevs : nsev[s] = SumKept(SomeFiles, s)
   /\ chan = <<>>
   /\ \A f \in Files : tpc[f] \in {"done", "panicked"}

\* no result is ever sent into a closed channel (would be a lost report + a panicking task)
NoLostSend == \A f \in Files : ~(tpc[f] = "diagnosed" /\ ~ReceiverAlive)

\* the writer never sees a file twice
NoDuplicateWrite == \A i, j \in DOMAIN written : written[i][1] = written[j][1] => i = j

\* liveness: the consumer terminates on every fair schedule (needs DropMain when a task panics)
Terminates == <>(cpc = "exit")

\* vacuity guards: must be VIOLATED (checked by the driver with the _vac config): some behaviour ends by the
\* closed-channel path, and some ends with exit 1 only because of --warnings-as-errors
NeverClosedPath == ~(cpc = "exit" /\ count < Total)
NeverWaeOnly == ~(cpc = "exit" /\ exit = 1 /\ wae /\
                  ~\E f \in SomeFiles : \E i \in DOMAIN res[f].l : res[f].l[i] = 1)
=============================================================================
