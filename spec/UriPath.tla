------------------------------- MODULE UriPath -------------------------------
(* File paths <-> file URIs and the identity of analysed files (C34).  A THIN use of TLA+: the module is
   the exhaustive small universe of paths, the alternative percent-encodings of their URIs, the decoder
   that says which path a URI denotes, and a small state machine for the id interning of `Vfs`.

   Part "paths" (Mode = "paths").  A path is /c1/../cn; a component is a non-empty sequence of TOKENS, a
   token is one character of a class that matters for URIs -- "a" unreserved, "sp" space, "pc" '%',
   "hash" '#', "qm" '?', "e2" a 2-byte UTF-8 character, "plus" a sub-delimiter that may stay literal --
   or "lit" = the three characters %61 appearing literally in a file name (the URI of such a file must
   not be decoded twice).  Styles are the alternative spellings of the same URI: literal where RFC 3986
   allows it or percent-encoded, upper or lower hex, over-encoded unreserved characters, and the lenient
   raw form (non-ASCII left raw -- an IRI -- which the WHATWG parser accepts).  TLC checks that the reference
   decoder inverts every style and that no spelling contains a raw delimiter (RefLaws), and
   prints every path with its URIs; the harness demands uri_to_file_path(file_path_to_uri(p)) = p and the
   same FileId for every spelling.

   Part "vfs" (Mode = "vfs").  `Vfs::file_id` interns the DECODED path: ids are handed out in order and
   never reused; `remove_file` forgets the path.  TLC generates histories of file_id / get_file_id /
   remove_file over alternative URIs of three paths (one of which is named like the encoding of another)
   with the expected result of every call; Identity is the property: two URIs of one path always get the
   same answer.                                                                                         *)
EXTENDS Naturals, Sequences, FiniteSets, TLC, Json

CONSTANTS Mode,        \* "paths" | "vfs"
          Tokens, MaxComp, MaxCompLen, MaxTot,
          Depth        \* history length in mode "vfs"

VARIABLES path, hist, ids, next
vars == <<path, hist, ids, next>>

----------------------------------------------------------------------------------------------------
\* characters: [ch |-> the character (as the harness writes it), lit |-> may stay literal in a URI path,
\*              up / lo |-> its percent-encoding in upper / lower hex, raw |-> the WHATWG parser accepts it raw]
C(ch, lit, up, lo, raw) == [ch |-> ch, lit |-> lit, up |-> up, lo |-> lo, raw |-> raw]
CharsOf(tok) ==
  CASE tok = "a"    -> <<C("a", TRUE, "%61", "%61", TRUE)>>
    [] tok = "sp"   -> <<C(" ", FALSE, "%20", "%20", FALSE)>>    \* a raw space is trimmed / invalid: never raw
    [] tok = "pc"   -> <<C("%", FALSE, "%25", "%25", FALSE)>>
    [] tok = "hash" -> <<C("#", FALSE, "%23", "%23", FALSE)>>
    [] tok = "qm"   -> <<C("?", FALSE, "%3F", "%3f", FALSE)>>
    [] tok = "e2"   -> <<C("e2", FALSE, "%C3%A9", "%c3%a9", TRUE)>>
    [] tok = "plus" -> <<C("+", TRUE, "%2B", "%2b", TRUE)>>
    [] tok = "lit"  -> <<C("%", FALSE, "%25", "%25", FALSE), C("6", TRUE, "%36", "%36", TRUE), C("1", TRUE, "%31", "%31", TRUE)>>

RECURSIVE Flat(_)
Flat(ss) == IF ss = <<>> THEN <<>> ELSE Head(ss) \o Flat(Tail(ss))
CompChars(comp) == Flat([i \in 1..Len(comp) |-> CharsOf(comp[i])])

Styles == {"canon", "lower", "allupper", "alllower", "mixed", "raw"}
\* the spelling of the i-th character of a component in a style: a URI piece
Piece(c, i, style) ==
  CASE style = "canon"    -> IF c.lit THEN c.ch ELSE c.up
    [] style = "lower"    -> IF c.lit THEN c.ch ELSE c.lo
    [] style = "allupper" -> c.up
    [] style = "alllower" -> c.lo
    [] style = "mixed"    -> IF i % 2 = 1 THEN c.lo ELSE (IF c.lit THEN c.ch ELSE c.up)
    [] style = "raw"      -> IF c.raw THEN c.ch ELSE c.up
\* a URI as a sequence of pieces; "/" separates components
CompPieces(comp, style) == LET cs == CompChars(comp) IN [i \in 1..Len(cs) |-> Piece(cs[i], i, style)]
UriPieces(p, style) == Flat([k \in 1..Len(p) |-> <<"/">> \o CompPieces(p[k], style)])

\* reference decoder: a piece denotes exactly one character
AllChars == UNION {{CharsOf(t)[i] : i \in 1..Len(CharsOf(t))} : t \in {"a", "sp", "pc", "hash", "qm", "e2", "plus", "lit"}}
DecodePiece(x) == IF x = "/" THEN "/" ELSE (CHOOSE c \in AllChars : x = c.ch \/ x = c.up \/ x = c.lo).ch
Decode(pieces) == [i \in 1..Len(pieces) |-> DecodePiece(pieces[i])]
PathChars(p) == Flat([k \in 1..Len(p) |-> <<"/">> \o [i \in 1..Len(CompChars(p[k])) |-> CompChars(p[k])[i].ch]])

\* all paths of at most MaxTot tokens in at most MaxComp components of at most MaxCompLen tokens:
\* a token sequence plus the set of positions after which a new component starts
RECURSIVE SplitAt(_, _, _)
SplitAt(t, cuts, from) ==
  IF from > Len(t) THEN <<>>
  ELSE LET later == {c \in cuts : c >= from}
           to == IF later = {} THEN Len(t) ELSE CHOOSE c \in later : \A d \in later : c <= d
       IN <<SubSeq(t, from, to)>> \o SplitAt(t, cuts, to + 1)
ValidCuts(n) == {cuts \in SUBSET (1..(n - 1)) :
                   /\ Cardinality(cuts) < MaxComp
                   /\ \A i \in 1..n : \E j \in 0..(MaxCompLen - 1) :      \* no run longer than MaxCompLen
                        i + j = n \/ (i + j) \in cuts \/ i + j > n}
PathsU == UNION {{SplitAt(t, cuts, 1) : t \in [1..n -> Tokens], cuts \in ValidCuts(n)} : n \in 1..MaxTot}

AllUris(p) == [st \in Styles |-> UriPieces(p, st)]
RefLaws == Mode = "paths" =>
  LET pc == PathChars(path) IN
  \A st \in Styles : LET u == UriPieces(path, st) IN
                      /\ Decode(u) = pc
                      /\ \A i \in 1..Len(u) : u[i] \notin {"?", "#", "%"}

EmitPath == Mode = "paths" =>
  PrintT(<<"PATH", ToJson([path |-> PathChars(path),
                           uris |-> AllUris(path)])>>)

----------------------------------------------------------------------------------------------------
\* Vfs identity.  Three files; the second is NAMED like the canonical encoding of the first.
VPath(n) == CASE n = 1 -> <<<<"a", "sp", "a">>>>                        \* "/a a"
              [] n = 2 -> <<<<"a", "pc", "a">>>>                        \* "/a%a"  (its URI is /a%25a)
              [] n = 3 -> <<<<"e2">>, <<"lit">>>>                       \* "/<e2>/%61"
VUris == {<<n, st>> : n \in 1..3, st \in {"canon", "alllower", "raw"}}

\* ids: path number -> id of the live interning (0 = not interned); next = the id the next new path gets
FileIdOf(n) == IF ids[n] # 0 THEN ids[n] ELSE next
DoFileId(u) == /\ hist' = Append(hist, [op |-> "file_id", path |-> u[1], uri |-> UriPieces(VPath(u[1]), u[2]),
                                         expect |-> FileIdOf(u[1]) - 1])
               /\ ids' = [ids EXCEPT ![u[1]] = FileIdOf(u[1])]
               /\ next' = IF ids[u[1]] # 0 THEN next ELSE next + 1
DoGet(u) == /\ hist' = Append(hist, [op |-> "get_file_id", path |-> u[1], uri |-> UriPieces(VPath(u[1]), u[2]),
                                     expect |-> ids[u[1]] - 1])       \* -1 = None
            /\ UNCHANGED <<ids, next>>
DoRemove(u) == /\ hist' = Append(hist, [op |-> "remove_file", path |-> u[1], uri |-> UriPieces(VPath(u[1]), u[2]),
                                        expect |-> ids[u[1]] - 1])
               /\ ids' = [ids EXCEPT ![u[1]] = 0]
               /\ UNCHANGED next

Init == IF Mode = "paths"
        THEN path \in PathsU /\ hist = <<>> /\ ids = <<>> /\ next = 0
        ELSE path = <<>> /\ hist = <<>> /\ ids = [n \in 1..3 |-> 0] /\ next = 1
Next == IF Mode = "paths" THEN UNCHANGED vars
        ELSE /\ Len(hist) < Depth
             /\ \E u \in VUris : DoFileId(u) \/ DoGet(u) \/ DoRemove(u)
             /\ UNCHANGED path
Spec == Init /\ [][Next]_vars

\* two live paths never share an id, ids are below `next`; (identity across spellings holds by construction:
\* the state is keyed by the path, which is what the code must implement)
Identity == Mode = "vfs" => \A m, n \in 1..3 : (m # n /\ ids[m] # 0) => ids[m] # ids[n]
Fresh == Mode = "vfs" => \A n \in 1..3 : ids[n] < next
EmitHist == (Mode = "vfs" /\ Len(hist) = Depth) => PrintT(<<"HIST", ToJson(hist)>>)
=============================================================================
