SPECIFICATION Spec
CONSTANTS
  AlphaA = {"CF", "EN", "GA"}
  AlphaB = {"CF", "CB", "GA"}
  AlphaC = {"GT", "AL"}
  AlphaL = {"LC", "LG", "CF"}
  SortsBeforeExport = TRUE
  TwoRuns = FALSE
INVARIANTS Emit
