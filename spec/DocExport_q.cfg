SPECIFICATION Spec
CONSTANTS
  AlphaA = {"CF", "EN", "GA"}
  AlphaB = {"CF", "CB", "GA"}
  AlphaC = {"GT", "AL"}
  AlphaL = {"LC", "LG", "CF", "EN", "AL"}
  SortsBeforeExport = TRUE
  TwoRuns = FALSE
INVARIANTS AnyLocIsReference Emit
