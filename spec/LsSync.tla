------------------------------- MODULE LsSync -------------------------------
(* Document synchronisation of emmylua_ls (C27, C29, C30): which text does the analysis hold, and what
   was published, after any schedule of the server's tasks?

   One action = one *critical-section step* of a real task: from one lock request to the next (that is
   exactly one step of the deterministic scheduler in harness/vh-ls, so every behaviour of this
   specification can be replayed on the real server and compared state by state).

   Transcribed from (emmylua_ls): handlers/notification_handler.rs (which notifications run inline on the
   main loop -- the Inline* constants are MINED from the real dispatch), handlers/text_document/
   text_document_handler.rs (open/change/close), watched_file_handler.rs (watch/wdel/cfg),
   context/file_diagnostic.rs (debounced per-file diagnostics, workspace diagnostics),
   context/workspace_manager.rs (config debounce, reload generation + reload_lock, open-files snapshot,
   sync_reloaded_open_files loop), handlers/initialized/mod.rs (init_analysis) and
   emmylua_code_analysis/src/lib.rs (reload_workspace_files).

   Abstractions: diagnostics are "a function of the content", so `published[u]` is the text the last
   published diagnostics of u were computed from; all files are workspace files; push diagnostics.     *)
EXTENDS Naturals, Sequences, FiniteSets, TLC, Json

CONSTANTS Uris, Texts,
          MaxMsgs,          \* client messages per behaviour
          MsgKinds,         \* subset of {"open","change","close","watch","wdel","cfg"}
          MaxCfg,           \* at most this many "cfg" messages (each leads to a workspace reload)
          MaxDisk,          \* environment disk writes/deletes per behaviour
          OnDisk,           \* uris that exist on disk initially (content Disk0)
          InlineOpen, InlineChange, InlineClose,  \* mined: handled inline on the main loop?
          Outside,          \* uris outside the workspace root (not analysed) until a reload loads a config listing their directory as a library
          CfgAddsLib,       \* TRUE: the config change delivered by a "cfg" message adds that library directory
          RenameClears,     \* mined/observed: didRenameFiles clears the pushed diagnostics of the old uri
          InitOpen,         \* uris already open (text InitText, analysed, diagnostics published) when the behaviour starts
          EnableReindex     \* emmyrc workspace.enableReindex (didSave schedules a debounced full reindex)

None == "none"        \* not open
Absent == "absent"    \* not in the vfs / not on disk
Never == "never"      \* nothing published yet
Empty == "empty"      \* an empty diagnostic set was published
Disk0 == "d0"         \* initial on-disk content
InitText == "t1"      \* text of the documents in InitOpen
Done == 99

MaxInc == MaxMsgs + 2   \* a uri cannot be removed more often than that in a bounded behaviour
DiagInterval == 500
CfgDebounce == 2000
WsDiagDelay == 500
ReindexDelay == 5000

VARIABLES script,     \* messages delivered so far
          mainBusy,   \* 0 or the index of the task running inline on the main loop
          tasks,      \* Seq of task records (see NewTask)
          wmOpen,     \* WorkspaceManager.open_file_texts
          wmVer,      \* WorkspaceManager.open_file_state_version
          vfs,        \* text the analysis holds per uri
          disk,       \* file system
          published,  \* last publishDiagnostics per uri
          diagTok,    \* FileDiagnostic.diagnostic_tokens, keyed by FileId = (uri, incarnation): task index of the token stored, or 0
          wsTok,      \* workspace_diagnostic_token : task index or 0
          cfgTok,     \* config_reload_token (debounce task index or 0)
          rxTok,      \* reindex_token (reindex task index or 0)
          reloadGen, reloadLock,
          anR, anW, wmR,   \* locks held ACROSS steps: sets of task indexes / index / set
          nDisk,
          inWs,       \* uris the workspace matcher (wm.match_file_pattern) currently accepts
          cfgLib,     \* the config file on disk lists the library directory
          inc,        \* incarnation of the file id of a uri: Vfs::remove_file forgets the path<->id mapping, a re-added file gets a NEW FileId
          late,       \* uris closed while no reload was responsible for them (their vfs content is the close handler's business)
          hist        \* replay schedule with the projected state after each step (hidden by VIEW)

vars == <<script, mainBusy, tasks, wmOpen, wmVer, vfs, disk, published, diagTok, wsTok, cfgTok, rxTok,
          reloadGen, reloadLock, anR, anW, wmR, nDisk, late, inc, inWs, cfgLib, hist>>
view == <<script, mainBusy, tasks, wmOpen, wmVer, vfs, disk, published, diagTok, wsTok, cfgTok, rxTok,
          reloadGen, reloadLock, anR, anW, wmR, nDisk, late, inc, inWs, cfgLib>>

Proj(o, v, p, d) == [open |-> o, vfs |-> v, pub |-> p, disk |-> d]
\* tasks that can take a step (parked at a lock request), and those that became so in a transition:
\* the replay maps them, in creation order, to the real tasks that newly parked
Runnable(ts) == {j \in 1..Len(ts) : ts[j].pc # 99 /\ ts[j].sleep = 0}
Woke(ts, ts2) == Runnable(ts2) \ Runnable(ts)

Msgs == [kind : MsgKinds \cap {"open", "change"}, uri : Uris, text : Texts]
          \cup [kind : MsgKinds \cap {"close", "watch", "wdel", "save"}, uri : Uris, text : {None}]
          \cup [kind : MsgKinds \cap {"cfg"}, uri : {None}, text : {None}]
          \cup [kind : MsgKinds \cap {"rename"}, uri : Uris, text : Uris]     \* didRenameFiles old -> new (text = new uri)

\* task record; `sleep` > 0 while waiting for a timer; pc = Done when finished
NewTask(kind, uri, text, inline, pc, sleep) ==
  [kind |-> kind, uri |-> uri, text |-> text, inline |-> inline, pc |-> pc, sleep |-> sleep,
   cancelled |-> FALSE, gen |-> 0, snapVer |-> 0, snapFiles |-> [u \in Uris |-> None],
   nextFiles |-> [u \in Uris |-> None], actions |-> [u \in Uris |-> None]]

Inline(k) == CASE k = "open" -> InlineOpen [] k = "change" -> InlineChange [] k = "close" -> InlineClose
               [] OTHER -> FALSE
FirstPc(k) == 1

\* the pre-opened documents count as the first messages of the script (so "last message" is defined)
RECURSIVE InitScript(_)
InitScript(us) == IF us = {} THEN <<>>
                  ELSE LET u == CHOOSE x \in us : TRUE IN
                       <<[kind |-> "open", uri |-> u, text |-> InitText]>> \o InitScript(us \ {u})
Init == /\ script = InitScript(InitOpen) /\ mainBusy = 0 /\ tasks = <<>>
        /\ wmOpen = [u \in Uris |-> IF u \in InitOpen THEN InitText ELSE None]
        /\ wmVer = Cardinality(InitOpen)
        /\ disk = [u \in Uris |-> IF u \in OnDisk THEN Disk0 ELSE Absent]
        /\ vfs = [u \in Uris |-> IF u \in InitOpen \ Outside THEN InitText ELSE IF u \in OnDisk \ Outside THEN Disk0 ELSE Absent]
        /\ published = [u \in Uris |-> IF u \in InitOpen \ Outside THEN InitText ELSE Never]
        /\ diagTok = [u \in Uris |-> [g \in 0..MaxInc |-> 0]] /\ wsTok = 0 /\ cfgTok = 0 /\ rxTok = 0
        /\ reloadGen = 0 /\ reloadLock = 0
        /\ anR = {} /\ anW = 0 /\ wmR = {} /\ nDisk = 0 /\ late = {} /\ inc = [u \in Uris |-> 0]
        /\ inWs = Uris \ Outside /\ cfgLib = FALSE
        /\ hist = <<>>

\* ---- client behaviour: a well-formed editor -----------------------------------------------------
LastDocMsg(u) == LET idx == {i \in 1..Len(script) : script[i].uri = u /\ script[i].kind \in {"open", "change", "close"}}
                 IN IF idx = {} THEN 0 ELSE CHOOSE i \in idx : \A j \in idx : j <= i
ClientOpen(u) == LastDocMsg(u) # 0 /\ script[LastDocMsg(u)].kind # "close"
NCfg == Cardinality({i \in 1..Len(script) : script[i].kind = "cfg"})

Deliver(m) ==
  /\ mainBusy = 0 /\ Len(script) < MaxMsgs + Cardinality(InitOpen)
  /\ m.kind = "open" => ~ClientOpen(m.uri)
  /\ m.kind \in {"change", "close", "save"} => ClientOpen(m.uri)
  /\ m.kind = "cfg" => NCfg < MaxCfg
  /\ m.kind = "rename" => (m.uri # m.text /\ disk[m.uri] # Absent /\ disk[m.text] = Absent
                           /\ ~ClientOpen(m.uri) /\ ~ClientOpen(m.text))   \* the client renamed the file on disk first
  /\ script' = Append(script, m)
  /\ tasks' = Append(tasks, NewTask(m.kind, m.uri, m.text, Inline(m.kind), 1, 0))
  /\ mainBusy' = IF Inline(m.kind) THEN Len(tasks) + 1 ELSE 0
  /\ hist' = Append(hist, [a |-> "deliver", kind |-> m.kind, uri |-> m.uri, text |-> m.text,
                           inline |-> Inline(m.kind), woke |-> {Len(tasks) + 1}, lib |-> (cfgLib \/ (m.kind = "cfg" /\ CfgAddsLib)),
                           st |-> Proj(wmOpen, vfs, published,
                                       IF m.kind = "rename" THEN [disk EXCEPT ![m.uri] = Absent, ![m.text] = disk[m.uri]] ELSE disk)])
  /\ disk' = IF m.kind = "rename" THEN [disk EXCEPT ![m.uri] = Absent, ![m.text] = disk[m.uri]] ELSE disk
  /\ UNCHANGED <<wmOpen, wmVer, vfs, published, diagTok, wsTok, cfgTok, rxTok, reloadGen, reloadLock,
                 anR, anW, wmR, nDisk, late, inc, inWs>>
  /\ cfgLib' = (cfgLib \/ (m.kind = "cfg" /\ CfgAddsLib))

ReloadPending == \E j \in 1..Len(tasks) : /\ tasks[j].pc # Done
                                          /\ \/ tasks[j].kind \in {"cfg", "debounce"}
                                             \/ tasks[j].kind = "reload" /\ tasks[j].pc <= 4
\* a reload that put the editor text of u into the analysis (u was open in its snapshot) and has not
\* finished its open-files sync yet is responsible for restoring u from disk when u is closed now
CoveredByReload(u) == \E j \in 1..Len(tasks) : /\ tasks[j].kind = "reload" /\ tasks[j].pc \in 3..7
                                                /\ tasks[j].snapFiles[u] # None
\* ---- environment: the file system changes under the server ---------------------------------------
DiskWrite(u, t) ==
  /\ nDisk < MaxDisk /\ disk[u] # t
  /\ ReloadPending          \* later disk changes are nobody's business until the next reload / watch event
  /\ disk' = [disk EXCEPT ![u] = t] /\ nDisk' = nDisk + 1
  /\ hist' = Append(hist, [a |-> "disk", uri |-> u, text |-> t, st |-> Proj(wmOpen, vfs, published, disk')])
  /\ UNCHANGED <<script, mainBusy, tasks, wmOpen, wmVer, vfs, published, diagTok, wsTok, cfgTok, rxTok,
                 reloadGen, reloadLock, anR, anW, wmR, late, inc, inWs, cfgLib>>

\* ---- lock guards (locks that are only held within one step need no state) -------------------------
CanAnR == anW = 0
CanAnW(i) == (anW = 0 \/ anW = i) /\ anR = {}
CanWmR == TRUE
CanWmW == wmR = {}

\* what a task is parked at, for the replay (lock, mode)
ParkedAt(t) ==
  CASE t.kind \in {"open", "change"} ->
         (CASE t.pc = 1 -> <<"an", "R">> [] t.pc = 2 -> <<"wm", "R">> [] t.pc = 3 -> <<"wm", "W">>
            [] t.pc = 4 -> <<"an", "W">> [] t.pc = 6 -> <<"wm", "R">> [] OTHER -> <<"diag_tokens", "M">>)
    [] t.kind = "rename" -> (CASE t.pc = 2 -> <<"wm", "R">> [] t.pc = 3 -> <<"an", "W">> [] OTHER -> <<"an", "R">>)
    [] t.kind = "save" -> (CASE t.pc = 1 -> <<"an", "R">> [] OTHER -> <<"wm", "R">>)
    [] t.kind = "reindex" -> (CASE t.pc = 1 -> <<"wm", "R">> [] t.pc = 2 -> <<"an", "W">> [] OTHER -> <<"ws_diag_token", "M">>)
    [] t.kind = "close" -> (CASE t.pc = 1 -> <<"wm", "W">> [] t.pc = 2 -> <<"an", "W">> [] OTHER -> <<"an", "R">>)
    [] t.kind \in {"watch", "wdel", "cfg"} ->
         (CASE t.pc = 1 -> <<"wm", "R">> [] t.pc = 2 -> <<"an", "W">> [] OTHER -> <<"diag_tokens", "M">>)
    [] t.kind = "diag" -> (CASE t.pc = 1 -> <<"an", "R">> [] OTHER -> <<"diag_tokens", "M">>)
    [] t.kind = "wsdiag" -> <<"an", "R">>
    [] t.kind = "wsfile" -> <<"an", "R">>
    [] t.kind = "reload" ->
         (CASE t.pc = 1 -> <<"reload_lock", "M">> [] t.pc = 2 -> <<"wm", "W">> [] t.pc = 3 -> <<"an", "W">>
            [] t.pc = 4 -> <<"an", "W">> [] t.pc = 5 -> <<"ws_diag_token", "M">> [] t.pc = 6 -> <<"wm", "R">>
            [] t.pc = 7 -> <<"an", "W">> [] t.pc = 8 -> <<"wm", "R">> [] t.pc = 9 -> <<"wm", "W">>
            [] OTHER -> <<"ws_diag_token", "M">>)
    [] OTHER -> <<"?", "?">>

\* cancel a debounced / sleeping task through its token: a sleeper ends at once, a task that already
\* passed its sleep only sees the flag (diagnose_file returns None)
Cancel(ts, j) == IF j = 0 THEN ts
                 ELSE [ts EXCEPT ![j].cancelled = TRUE,
                                 ![j].pc = IF ts[j].sleep > 0 THEN Done ELSE @,
                                 ![j].sleep = 0]

\* one step of task i; `T` is the updated task table (may append spawned tasks)
Finish(ts, i) == [ts EXCEPT ![i].pc = Done]
Goto(ts, i, p) == [ts EXCEPT ![i].pc = p]

StepLabel(i) == [a |-> "step", i |-> i, kind |-> tasks[i].kind, lock |-> ParkedAt(tasks[i])[1],
                 mode |-> ParkedAt(tasks[i])[2]]

\* removing files from the analysis: their FileIds die (tokens stored under them become unreachable)
IncAfterRemoval(removed) == [u \in Uris |-> IF u \in removed THEN inc[u] + 1 ELSE inc[u]]

\* --- didOpen / didChange -------------------------------------------------------------------------
DocStep(i) == LET t == tasks[i] u == t.uri IN
  \/ /\ t.pc = 1 /\ CanAnR
     /\ tasks' = Goto(tasks, i, IF vfs[u] # Absent THEN 3 ELSE 2)
     /\ UNCHANGED <<wmOpen, wmVer, vfs, published, diagTok, anR, anW, wmR>>
  \/ /\ t.pc = 2 /\ CanWmR        \* is_workspace_file: a filtered document is only recorded as open
     /\ tasks' = [tasks EXCEPT ![i].pc = 3, ![i].snapVer = IF u \in inWs THEN 0 ELSE 1]
     /\ UNCHANGED <<wmOpen, wmVer, vfs, published, diagTok, anR, anW, wmR>>
  \/ /\ t.pc = 3 /\ CanWmW
     /\ wmOpen' = [wmOpen EXCEPT ![u] = t.text] /\ wmVer' = wmVer + 1
     /\ tasks' = IF t.snapVer = 1 /\ u \notin inWs THEN Finish(tasks, i) ELSE Goto(tasks, i, 4)   \* matcher consulted again under the write lock
     /\ UNCHANGED <<vfs, published, diagTok, anR, anW, wmR>>
  \/ /\ t.pc = 4 /\ CanAnW(i)
     /\ vfs' = [vfs EXCEPT ![u] = t.text]
     /\ tasks' = [tasks EXCEPT ![i].pc = IF t.kind = "change" /\ EnableReindex THEN 6 ELSE 5,
                                 ![i].gen = inc[u]]     \* the FileId update_file_by_uri returned
     /\ UNCHANGED <<wmOpen, wmVer, published, diagTok, anR, anW, wmR>>
  \/ /\ t.pc = 6 /\ CanWmR   \* extend_reindex_delay: a pending reindex sleeps its full delay again
     /\ tasks' = IF rxTok # 0 /\ tasks[rxTok].pc # Done
                 THEN [tasks EXCEPT ![i].pc = 5, ![rxTok].text = "resleep"] ELSE Goto(tasks, i, 5)
     /\ UNCHANGED <<wmOpen, wmVer, vfs, published, diagTok, anR, anW, wmR>>
  \/ /\ t.pc = 5           \* add_diagnostic_task: cancel the stored token, store a new one, spawn
     /\ LET ts1 == Cancel(tasks, diagTok[u][t.gen])      \* keyed by the FileId the handler got, dead or alive
            ts2 == Append(Finish(ts1, i), [NewTask("diag", u, None, FALSE, 1, DiagInterval) EXCEPT !.gen = t.gen]) IN
        /\ tasks' = ts2
        /\ diagTok' = [diagTok EXCEPT ![u][t.gen] = Len(ts2)]
     /\ UNCHANGED <<wmOpen, wmVer, vfs, published, anR, anW, wmR>>

\* --- didClose -------------------------------------------------------------------------------------
CloseStep(i) == LET t == tasks[i] u == t.uri IN
  \/ /\ t.pc = 1 /\ CanWmW
     /\ wmOpen' = [wmOpen EXCEPT ![u] = None] /\ wmVer' = wmVer + 1
     /\ tasks' = Goto(tasks, i, IF disk[u] = Absent THEN 2 ELSE 3)      \* path.exists() now
     /\ late' = IF CoveredByReload(u) THEN late ELSE late \cup {u}
     /\ UNCHANGED <<vfs, published, diagTok, anR, anW, wmR>>
  \/ /\ t.pc = 2 /\ CanAnW(i)       \* path.exists() is re-checked under the write lock
     /\ IF disk[u] = Absent
        THEN /\ vfs' = [vfs EXCEPT ![u] = Absent]
             /\ published' = [published EXCEPT ![u] = Empty]
             /\ tasks' = Finish(tasks, i)
        ELSE /\ tasks' = Goto(tasks, i, 3)
             /\ UNCHANGED <<vfs, published>>
     /\ UNCHANGED <<wmOpen, wmVer, diagTok, anR, anW, wmR, late>>
  \/ /\ t.pc = 3 /\ CanAnR      \* file on disk: it keeps its module info, stays in the analysis
     /\ tasks' = Finish(tasks, i)
     /\ UNCHANGED <<wmOpen, wmVer, vfs, published, diagTok, anR, anW, wmR, late>>

\* --- per-file diagnostic task ---------------------------------------------------------------------
DiagStep(i) == LET t == tasks[i] u == t.uri IN
  \/ /\ t.pc = 1 /\ t.sleep = 0 /\ CanAnR
     /\ published' = IF vfs[u] # Absent /\ u \notin Outside /\ t.gen = inc[u] /\ ~t.cancelled THEN [published EXCEPT ![u] = vfs[u]] ELSE published
     /\ anR' = anR \cup {i}                      \* the read guard lives until the task ends
     /\ tasks' = Goto(tasks, i, 2)
     /\ UNCHANGED <<wmOpen, wmVer, vfs, diagTok, anW, wmR>>
  \/ /\ t.pc = 2
     /\ diagTok' = [diagTok EXCEPT ![u][t.gen] = 0]   \* removes WHATEVER token is stored for its FileId
     /\ anR' = anR \ {i}
     /\ tasks' = Finish(tasks, i)
     /\ UNCHANGED <<wmOpen, wmVer, vfs, published, anW, wmR>>

\* --- didChangeWatchedFiles: lua file changed / deleted, config changed ----------------------------
WatchStep(i) == LET t == tasks[i] u == t.uri IN
  \/ /\ t.pc = 1 /\ CanWmR
     /\ wmR' = wmR \cup {i}
     /\ tasks' = Goto(tasks, i, 2)
     /\ UNCHANGED <<wmOpen, wmVer, vfs, published, diagTok, anR, anW, cfgTok>>
  \/ /\ t.pc = 2 /\ CanAnW(i) /\ t.kind = "watch"
     /\ IF wmOpen[u] = None /\ u \in inWs /\ disk[u] # Absent
        THEN /\ vfs' = [vfs EXCEPT ![u] = disk[u]]
             /\ anW' = i /\ tasks' = [tasks EXCEPT ![i].pc = 3, ![i].gen = inc[u]] /\ UNCHANGED wmR
        ELSE /\ UNCHANGED <<vfs, anW>> /\ wmR' = wmR \ {i} /\ tasks' = Finish(tasks, i)
     /\ UNCHANGED <<wmOpen, wmVer, published, diagTok, anR, cfgTok>>
  \/ /\ t.pc = 2 /\ CanAnW(i) /\ t.kind = "wdel"
     /\ vfs' = [vfs EXCEPT ![u] = Absent]
     /\ published' = [published EXCEPT ![u] = Empty]
     /\ wmR' = wmR \ {i} /\ tasks' = Finish(tasks, i)
     /\ UNCHANGED <<wmOpen, wmVer, diagTok, anR, anW, cfgTok>>
  \/ /\ t.pc = 2 /\ CanAnW(i) /\ t.kind = "cfg"     \* add_update_emmyrc_task: debounce 2 s
     /\ LET ts1 == Cancel(tasks, cfgTok)
            ts2 == Append(Finish(ts1, i), NewTask("debounce", None, None, FALSE, 1, CfgDebounce)) IN
        /\ tasks' = ts2 /\ cfgTok' = Len(ts2)
     /\ wmR' = wmR \ {i}
     /\ UNCHANGED <<wmOpen, wmVer, vfs, published, diagTok, anR, anW>>
  \/ /\ t.pc = 3 /\ t.kind = "watch"
     /\ LET ts1 == Cancel(tasks, diagTok[u][t.gen])
            ts2 == Append(Finish(ts1, i), [NewTask("diag", u, None, FALSE, 1, DiagInterval) EXCEPT !.gen = t.gen]) IN
        /\ tasks' = ts2 /\ diagTok' = [diagTok EXCEPT ![u][t.gen] = Len(ts2)]
     /\ anW' = 0 /\ wmR' = wmR \ {i}
     /\ UNCHANGED <<wmOpen, wmVer, vfs, published, anR, cfgTok>>

\* --- didRenameFiles (old uri in t.uri, new uri in t.text) ---------------------------------------------
RenameStep(i) == LET t == tasks[i] old == t.uri new == t.text IN
  \/ /\ t.pc = 1 /\ CanAnR        \* collect rename infos: only files the analysis knows
     /\ tasks' = IF vfs[old] = Absent THEN Finish(tasks, i) ELSE Goto(tasks, i, 2)
     /\ UNCHANGED <<vfs, published, wmR>>
  \/ /\ t.pc = 2 /\ CanWmR        \* workspace_manager read lock held over the update
     /\ wmR' = wmR \cup {i}
     /\ tasks' = Goto(tasks, i, 3)
     /\ UNCHANGED <<vfs, published>>
  \/ /\ t.pc = 3 /\ CanAnW(i)     \* remove the old file, load the new one from disk unless it is open in the editor
     /\ vfs' = [vfs EXCEPT ![old] = Absent,
                           ![new] = IF wmOpen[new] = None /\ disk[new] # Absent THEN disk[new] ELSE vfs[new]]
     /\ published' = IF RenameClears THEN [published EXCEPT ![old] = Empty] ELSE published
     /\ wmR' = wmR \ {i}
     /\ tasks' = Goto(tasks, i, 4)
  \/ /\ t.pc = 4 /\ CanAnR        \* try_modify_require_path: nothing requires these files
     /\ tasks' = Finish(tasks, i)
     /\ UNCHANGED <<vfs, published, wmR>>

\* --- didSave -> debounced full reindex -------------------------------------------------------------
SaveStep(i) == LET t == tasks[i] IN
  \/ /\ t.pc = 1 /\ CanAnR
     /\ tasks' = IF EnableReindex THEN Goto(tasks, i, 2) ELSE Finish(tasks, i)
     /\ UNCHANGED rxTok
  \/ /\ t.pc = 2 /\ CanWmR        \* reindex_workspace: replace the pending token, spawn the sleeper
     /\ LET ts1 == Cancel(tasks, rxTok)
            ts2 == Append(Finish(ts1, i), NewTask("reindex", None, None, FALSE, 1, ReindexDelay)) IN
        /\ tasks' = ts2 /\ rxTok' = Len(ts2)
ReindexStep(i) == LET t == tasks[i] IN
  \/ /\ t.pc = 1 /\ CanWmR        \* workspace_manager read lock held over the clean-up (open documents stay put)
     /\ wmR' = wmR \cup {i}
     /\ tasks' = Goto(tasks, i, 2)
     /\ UNCHANGED <<vfs, published, wsTok, rxTok>>
  \/ /\ t.pc = 2 /\ CanAnW(i)     \* cleanup_nonexistent_files_except(open documents) + reindex
     /\ LET removed == {u \in Uris : vfs[u] # Absent /\ disk[u] = Absent /\ wmOpen[u] = None} IN
        /\ vfs' = [u \in Uris |-> IF u \in removed THEN Absent ELSE vfs[u]]
        /\ published' = [u \in Uris |-> IF u \in removed THEN Empty ELSE published[u]]
     /\ wmR' = wmR \ {i}
     /\ tasks' = Goto(tasks, i, 3)
     /\ UNCHANGED <<wsTok, rxTok>>
  \/ /\ t.pc = 3                  \* refresh_workspace_diagnostics: cancel ...
     /\ tasks' = Goto(Cancel(tasks, wsTok), i, 4) /\ wsTok' = 0
     /\ UNCHANGED <<vfs, published, wmR, rxTok>>
  \/ /\ t.pc = 4                  \* ... and schedule; the reindex token is cleared
     /\ LET ts1 == Cancel(tasks, wsTok)
            ts2 == Append(Finish(ts1, i), NewTask("wsdiag", None, None, FALSE, 1, WsDiagDelay)) IN
        /\ tasks' = ts2 /\ wsTok' = Len(ts2)
     /\ rxTok' = IF rxTok = i THEN 0 ELSE rxTok
     /\ UNCHANGED <<vfs, published, wmR>>

\* --- workspace reload -----------------------------------------------------------------------------
OpenSet(f) == {u \in Uris : f[u] # None}
ReloadStep(i) == LET t == tasks[i] IN
  \/ /\ t.pc = 1 /\ reloadLock = 0
     /\ IF t.gen # reloadGen
        THEN tasks' = Finish(tasks, i) /\ UNCHANGED reloadLock
        ELSE tasks' = Goto(tasks, i, 2) /\ reloadLock' = i
     /\ UNCHANGED <<wmOpen, wmVer, vfs, published, wsTok, anR, anW, wmR>>
  \/ /\ t.pc = 2 /\ CanWmW          \* update_match_state + open-files snapshot
     /\ inWs' = IF t.text = "lib" THEN Uris ELSE Uris \ Outside
     /\ tasks' = [tasks EXCEPT ![i].pc = 3, ![i].snapVer = wmVer,
                                 ![i].snapFiles = [u \in Uris |-> IF u \in inWs' THEN wmOpen[u] ELSE None]]
     /\ UNCHANGED <<wmOpen, wmVer, vfs, published, wsTok, reloadLock, anR, anW, wmR>>
  \/ /\ t.pc = 3 /\ CanAnW(i)       \* clear_non_std_workspaces
     /\ tasks' = Goto(tasks, i, 4)
     /\ UNCHANGED <<wmOpen, wmVer, vfs, published, wsTok, reloadLock, anR, anW, wmR>>
  \/ /\ t.pc = 4 /\ CanAnW(i)       \* init_analysis: disk files now, open texts from the snapshot
     /\ LET nv == [u \in Uris |-> IF t.snapFiles[u] # None THEN t.snapFiles[u]
                                   ELSE IF disk[u] # Absent /\ u \in inWs THEN disk[u] ELSE Absent]
            removed == {u \in Uris : vfs[u] # Absent /\ nv[u] = Absent} IN
        /\ vfs' = nv
        /\ published' = [u \in Uris |-> IF u \in removed THEN Empty ELSE published[u]]
     /\ tasks' = Goto(tasks, i, 5)
     /\ UNCHANGED <<wmOpen, wmVer, wsTok, reloadLock, anR, anW, wmR>>
  \/ /\ t.pc = 5                    \* add_workspace_diagnostic_task(0)
     /\ LET ts1 == Cancel(tasks, wsTok)
            ts2 == Append(Goto(ts1, i, 6), NewTask("wsdiag", None, None, FALSE, 1, 0)) IN   \* sleep(0) is ready at once
        /\ tasks' = ts2 /\ wsTok' = Len(ts2)
     /\ UNCHANGED <<wmOpen, wmVer, vfs, published, reloadLock, anR, anW, wmR>>
  \/ /\ t.pc = 6 /\ CanWmR          \* sync_reloaded_open_files: compare versions
     /\ LET cur == [u \in Uris |-> IF u \in inWs THEN wmOpen[u] ELSE None] IN   \* workspace_open_files()
        IF wmVer = t.snapVer
        THEN tasks' = Goto(tasks, i, 8)
        ELSE LET acts == [u \in Uris |-> IF t.snapFiles[u] # None /\ cur[u] = None
                                          THEN (IF u \in inWs /\ disk[u] # Absent THEN "restore" ELSE "remove")
                                          ELSE None] IN
             IF OpenSet(cur) = {} /\ \A u \in Uris : acts[u] = None
             THEN tasks' = [tasks EXCEPT ![i].snapVer = wmVer, ![i].snapFiles = cur]   \* loop again
             ELSE tasks' = [tasks EXCEPT ![i].pc = 7, ![i].nextFiles = cur, ![i].snapVer = wmVer,
                                         ![i].actions = acts]
     /\ UNCHANGED <<wmOpen, wmVer, vfs, published, wsTok, reloadLock, anR, anW, wmR>>
  \/ /\ t.pc = 7 /\ CanAnW(i)       \* apply_open_file_sync
     /\ LET nv == [u \in Uris |->
                     IF t.nextFiles[u] # None THEN t.nextFiles[u]
                     ELSE IF t.actions[u] = "restore" THEN (IF disk[u] # Absent THEN disk[u] ELSE Absent)
                     ELSE IF t.actions[u] = "remove" THEN Absent
                     ELSE vfs[u]]
            removed == {u \in Uris : t.actions[u] # None /\ t.nextFiles[u] = None /\ nv[u] = Absent} IN
        /\ vfs' = nv
        /\ published' = [u \in Uris |-> IF u \in removed THEN Empty ELSE published[u]]
     /\ tasks' = [tasks EXCEPT ![i].pc = 6, ![i].snapFiles = t.nextFiles]
     /\ UNCHANGED <<wmOpen, wmVer, wsTok, reloadLock, anR, anW, wmR>>
  \/ /\ t.pc = 8 /\ CanWmR          \* register_files_watch: read roots
     /\ tasks' = Goto(tasks, i, 9)
     /\ UNCHANGED <<wmOpen, wmVer, vfs, published, wsTok, reloadLock, anR, anW, wmR>>
  \/ /\ t.pc = 9 /\ CanWmW          \* watcher = None; then the second generation check
     /\ IF t.gen # reloadGen
        THEN tasks' = Finish(tasks, i) /\ reloadLock' = 0
        ELSE tasks' = Goto(tasks, i, 10) /\ UNCHANGED reloadLock
     /\ UNCHANGED <<wmOpen, wmVer, vfs, published, wsTok, anR, anW, wmR>>
  \/ /\ t.pc = 10                   \* cancel_workspace_diagnostic
     /\ tasks' = Goto(Cancel(tasks, wsTok), i, 11) /\ wsTok' = 0
     /\ UNCHANGED <<wmOpen, wmVer, vfs, published, reloadLock, anR, anW, wmR>>
  \/ /\ t.pc = 11                   \* add_workspace_diagnostic_task(500); reload_lock released
     /\ LET ts1 == Cancel(tasks, wsTok)
            ts2 == Append(Finish(ts1, i), NewTask("wsdiag", None, None, FALSE, 1, WsDiagDelay)) IN
        /\ tasks' = ts2 /\ wsTok' = Len(ts2)
     /\ reloadLock' = 0
     /\ UNCHANGED <<wmOpen, wmVer, vfs, published, anR, anW, wmR>>

\* --- workspace diagnostics: list the files, then one task per file ---------------------------------
RECURSIVE AppendFileTasks(_, _, _)
AppendFileTasks(ts, us, parent) ==
  IF us = {} THEN ts
  ELSE LET u == CHOOSE x \in us : TRUE IN
       AppendFileTasks(Append(ts, [NewTask("wsfile", u, None, FALSE, 1, 0) EXCEPT !.gen = parent, !.snapVer = inc[u]]),   \* snapVer = FileId incarnation listed
                       us \ {u}, parent)
WsStep(i) == LET t == tasks[i] IN
  \/ /\ t.kind = "wsdiag" /\ t.pc = 1 /\ t.sleep = 0 /\ CanAnR
     /\ tasks' = AppendFileTasks(Finish(tasks, i), {u \in Uris : vfs[u] # Absent /\ u \notin Outside}, i)   \* main-workspace files only
     /\ UNCHANGED published
  \/ /\ t.kind = "wsfile" /\ t.pc = 1 /\ CanAnR
     /\ published' = IF vfs[t.uri] # Absent /\ t.snapVer = inc[t.uri] /\ ~tasks[t.gen].cancelled
                     THEN [published EXCEPT ![t.uri] = vfs[t.uri]] ELSE published
     /\ tasks' = Finish(tasks, i)

Step(i) ==
  /\ i \in 1..Len(tasks)
  /\ tasks[i].pc # Done /\ tasks[i].sleep = 0
  /\ tasks[i].inline => mainBusy = i
  /\ LET k == tasks[i].kind IN
     \/ /\ k \in {"open", "change"} /\ DocStep(i)
        /\ UNCHANGED <<disk, wsTok, cfgTok, rxTok, reloadGen, reloadLock, nDisk, late>>
     \/ /\ k = "close" /\ CloseStep(i)
        /\ UNCHANGED <<disk, wsTok, cfgTok, rxTok, reloadGen, reloadLock, nDisk>>
     \/ /\ k = "diag" /\ DiagStep(i)
        /\ UNCHANGED <<disk, wsTok, cfgTok, rxTok, reloadGen, reloadLock, nDisk, late>>
     \/ /\ k \in {"watch", "wdel", "cfg"} /\ WatchStep(i)
        /\ UNCHANGED <<disk, wsTok, rxTok, reloadGen, reloadLock, nDisk, late>>
     \/ /\ k = "reload" /\ ReloadStep(i)
        /\ late' = IF tasks[i].pc = 4 THEN {} ELSE late
        /\ (tasks[i].pc # 2 => UNCHANGED inWs)
        /\ UNCHANGED <<disk, diagTok, cfgTok, rxTok, reloadGen, nDisk>>
     \/ /\ k = "rename" /\ RenameStep(i)
        /\ UNCHANGED <<wmOpen, wmVer, disk, diagTok, wsTok, cfgTok, rxTok, reloadGen, reloadLock,
                       anR, anW, nDisk, late>>
     \/ /\ k = "save" /\ SaveStep(i)
        /\ UNCHANGED <<wmOpen, wmVer, vfs, disk, published, diagTok, wsTok, cfgTok, reloadGen, reloadLock,
                       anR, anW, wmR, nDisk, late>>
     \/ /\ k = "reindex" /\ ReindexStep(i)
        /\ UNCHANGED <<wmOpen, wmVer, disk, diagTok, cfgTok, reloadGen, reloadLock,
                       anR, anW, nDisk, late>>
     \/ /\ k \in {"wsdiag", "wsfile"} /\ WsStep(i)
        /\ UNCHANGED <<wmOpen, wmVer, vfs, disk, diagTok, wsTok, cfgTok, rxTok, reloadGen, reloadLock,
                       anR, anW, wmR, nDisk, late>>
  /\ inc' = IncAfterRemoval({u \in Uris : vfs[u] # Absent /\ vfs'[u] = Absent})
  /\ (tasks[i].kind # "reload" => UNCHANGED inWs)
  /\ UNCHANGED cfgLib
  /\ mainBusy' = IF tasks[i].inline /\ tasks'[i].pc = Done THEN 0 ELSE mainBusy
  /\ hist' = Append(hist, [StepLabel(i) EXCEPT !.a = "step"] @@ [woke |-> Woke(tasks, tasks'), st |-> Proj(wmOpen', vfs', published', disk)])
  /\ UNCHANGED script

\* ---- virtual time: advance to the earliest deadline; everything due wakes -------------------------
Sleepers == {j \in 1..Len(tasks) : tasks[j].pc # Done /\ tasks[j].sleep > 0}
MinSleep == CHOOSE d \in {tasks[j].sleep : j \in Sleepers} : \A j \in Sleepers : d <= tasks[j].sleep
\* a config debounce that fires spawns the reload task at once (no lock in between)
Tick ==
  /\ Sleepers # {}
  /\ LET d == MinSleep
         woken == {j \in Sleepers : tasks[j].sleep = d}
         ts1 == [j \in 1..Len(tasks) |->
                   IF j \in Sleepers
                   THEN (IF tasks[j].sleep = d
                         THEN (IF tasks[j].kind = "reindex" /\ tasks[j].text = "resleep"
                               THEN [tasks[j] EXCEPT !.sleep = ReindexDelay, !.text = None]
                               ELSE [tasks[j] EXCEPT !.sleep = 0, !.pc = IF tasks[j].kind = "debounce" THEN Done ELSE @])
                         ELSE [tasks[j] EXCEPT !.sleep = @ - d])
                   ELSE tasks[j]]
         fired == {j \in woken : tasks[j].kind = "debounce"} IN
     /\ IF fired = {}
        THEN tasks' = ts1 /\ UNCHANGED <<reloadGen, cfgTok>>
        ELSE /\ tasks' = Append(ts1, [NewTask("reload", None, IF cfgLib THEN "lib" ELSE "nolib", FALSE, 1, 0)
                                         EXCEPT !.gen = reloadGen + 1])     \* load_emmy_config reads the file now
             /\ reloadGen' = reloadGen + 1
             /\ cfgTok' = 0
     /\ hist' = Append(hist, [a |-> "tick", ms |-> d, woke |-> Woke(tasks, tasks'), st |-> Proj(wmOpen, vfs, published, disk)])
  /\ UNCHANGED <<script, mainBusy, wmOpen, wmVer, vfs, disk, published, diagTok, wsTok, rxTok, reloadLock,
                 anR, anW, wmR, nDisk, late, inc, inWs, cfgLib>>

Next == \/ \E m \in Msgs : Deliver(m)
        \/ \E i \in 1..Len(tasks) : Step(i)
        \/ Tick
        \/ \E u \in Uris, t \in Texts \cup {Absent} : DiskWrite(u, t)

Spec == Init /\ [][Next]_vars

\* ---- properties (judged when everything has settled) ----------------------------------------------
Quiescent == /\ mainBusy = 0
             /\ \A i \in 1..Len(tasks) : tasks[i].pc = Done
HadReload == \E i \in 1..Len(tasks) : tasks[i].kind \in {"reload", "reindex"} /\ tasks[i].pc = Done /\ ~tasks[i].cancelled
\* watched-file CHANGE events are not document notifications, but the handler skips open documents, so the
\* last document notification must still win when they are interleaved
OnlyDocMsgs == \A i \in 1..Len(script) : script[i].kind \in {"open", "change", "close", "watch"}

\* C27: message order decides (scripts of didOpen/didChange/didClose only)
C27 == (Quiescent /\ OnlyDocMsgs /\ nDisk = 0) =>
         \A u \in Uris : LastDocMsg(u) # 0 =>
            LET m == script[LastDocMsg(u)] IN
            IF m.kind = "close" THEN wmOpen[u] = None /\ (disk[u] = Absent => vfs[u] = Absent)
            ELSE wmOpen[u] = m.text /\ (u \in inWs => vfs[u] = m.text)

\* C29: after a reload every open file has the editor's text, every closed file its disk content
C29 == (Quiescent /\ HadReload) =>
         \A u \in Uris :
            IF ClientOpen(u) THEN (u \in inWs => vfs[u] = script[LastDocMsg(u)].text)
            ELSE (u \notin late /\ u \in inWs => vfs[u] = disk[u])
\* closed files are only required to match the disk if nothing touched the disk after the last reload
\* read it; the harness-side evaluation uses the same predicate on the real state.

\* C30: published diagnostics converge
C30 == Quiescent =>
         \A u \in Uris :
            /\ (ClientOpen(u) /\ vfs[u] # Absent /\ u \notin Outside) => published[u] = vfs[u]
            /\ (vfs[u] = Absent /\ published[u] # Never) => published[u] = Empty

\* ---- emission of replayable behaviours: one per distinct quiescent state ---------------------------
Emit == (Quiescent /\ Len(script) > Cardinality(InitOpen)) =>
           PrintT(<<"SCHED", ToJson([hist |-> hist,
                                     kinds |-> [i \in 1..Len(tasks) |-> tasks[i].kind],
                                     c27 |-> C27, c29 |-> C29, c30 |-> C30, reindex |-> EnableReindex, initOpen |-> InitOpen, outside |-> Outside, inWs |-> inWs,
                                     late |-> late, hadReload |-> HadReload, disk |-> disk,
                                     disk0 |-> [u \in Uris |-> IF u \in OnDisk THEN Disk0 ELSE Absent],
                                     script |-> script])>>)
=============================================================================
