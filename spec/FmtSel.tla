------------------------------- MODULE FmtSel -------------------------------
(* Selection enumerator for C07 (range formatting).

   A document is described by its length and the byte offsets of its token boundaries (recorded from
   the real parser).  TLC enumerates EVERY selection (s, e), s <= e, whose ends lie on a token boundary
   or one byte before / after one, plus a selection end beyond the end of the document: empty
   selections, partial-token selections, multi-line, whole-file and beyond-end selections are all
   in this set.  For large documents `window` > 0 restricts the pairs to those with at most `window`
   candidate positions in between (all short selections at every position).  One SEL line per pair.

   Documents of FmtSelDocs.tla (many small documents that differ in one multi-line token) carry `lines`, the
   offsets of their line starts, and are enumerated in the way an editor produces ranges: every caret
   (s = e) on a token boundary or line start, every token-to-next-boundary selection, and every whole-line
   selection (s, e line starts or the end of the document, s < e). *)
EXTENDS Integers, Sequences, SequencesExt, FiniteSets, TLC, Json, IOUtils

Docs == TLCEval(ndJsonDeserialize(IOEnv.DOCS))     \* records [id, len, bounds, window, lines]; lines = <<>>: all pairs

VARIABLES d, s, e

RangeOf(q) == {q[i] : i \in DOMAIN q}
Cand(doc) == {x \in UNION {{b - 1, b, b + 1} : b \in RangeOf(doc.bounds)} : x >= 0 /\ x <= doc.len}
             \cup {0, doc.len, doc.len + 5}
MinOf(a, b) == IF a <= b THEN a ELSE b

LineSel(doc) ==
  LET L == RangeOf(doc.lines) \cup {0, doc.len}
      P == RangeOf(doc.bounds) \cup L
      PS == SetToSortSeq(P, LAMBDA a, b : a < b)
  IN {<<x, x>> : x \in P} \cup {<<PS[i], PS[i + 1]>> : i \in 1..(Len(PS) - 1)}
     \cup {<<a, b>> \in L \X L : a < b}

Init == /\ d \in 1..Len(Docs)
        /\ IF Docs[d].lines # <<>> THEN (\E p \in LineSel(Docs[d]) : s = p[1] /\ e = p[2]) ELSE
           LET C == SetToSortSeq(Cand(Docs[d]), LAMBDA a, b : a < b)
               W == IF Docs[d].window = 0 THEN Len(C) ELSE Docs[d].window + 1
           IN \E i \in 1..Len(C) : \E k \in i..MinOf(Len(C), i + W) : s = C[i] /\ e = C[k]
Next == UNCHANGED <<d, s, e>>
Spec == Init /\ [][Next]_<<d, s, e>>

Emit == PrintT(<<"SEL", ToJson([id |-> Docs[d].id, s |-> s, e |-> e])>>)
=============================================================================
