SPECIFICATION Spec
CONSTANTS
  Files = {f1, f2, f3}
  Lists <- ListsQ
  Caps = {1, 2}
  Filters = {0, 1, 2}
  AllowPanic = TRUE
SYMMETRY Perms
INVARIANTS TypeOK ExitCorrect NoLostSend NoDuplicateWrite
CHECK_DEADLOCK TRUE
