SPECIFICATION Spec
CONSTANTS
  Files = {"f1", "f2"}
  Snippets = {"s1", "s2", "s3", "s4", "s5", "s6", "s7", "s8", "s9", "s10"}
  Levels = {"Lua51", "Lua54", "Lua55"}
  MaxSteps = 4
  KeyByTextOnly = FALSE
VIEW view
INVARIANTS CacheTransparent CacheSound Emit
