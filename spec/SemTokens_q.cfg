SPECIFICATION Spec
CONSTANTS
  W = 2
  NL = 2
  MaxPush = 3
  Big = 0
INVARIANTS Guarantee Converse Lossless NoUnderflow DedupOnlyByStart OutputInDocument SingleLineInDocument
