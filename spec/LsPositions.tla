------------------------------ MODULE LsPositions ------------------------------
(* C25: the abstract matrix  document class x position classes x position/range-taking request.

   The documents are data (file named by the environment variable DOCS, one JSON object per line):
     [cls   |-> "empty" | "ascii" | "nonascii" | "crlf" | "nonl" | "syntaxerr",
      lines |-> << UTF-16 length of every line as LSP counts lines (LF, CR LF, CR terminate) >>,
      toks  |-> << <<line, col, len>> : 0-based line, UTF-16 column, UTF-16 length of a token >> ]
   A position class is turned into a concrete (line, character) by Position below; this is the reference
   reading of the classes the property statement lists ("beyond the end of a line or of the document").

   EVERY position-like parameter of a request is a slot of its own, and the slots of one request are
   drawn from the position classes independently of each other (Shape):
     point   one Position                                  hover, definition, ..., inlayHint/resolve
     point + a string parameter drawn from its own classes rename (newName), onTypeFormatting (ch)
     list    positions[]: every list of 0..ListMax classes textDocument/selectionRange
             (so unsorted lists and duplicates occur)
     range   start, end: every ordered pair (reversed and  rangeFormatting, inlayHint, colorPresentation,
             empty ranges occur)                           documentLink/resolve, codeLens/resolve
     quad    two ranges = four slots, every 4-tuple: the   inlineValue (range, context.stoppedLocation),
             second range lies before / after / inside /   codeAction (range, context.diagnostics[].range),
             across the first one, either may be reversed  callHierarchy/incomingCalls, outgoingCalls
             or beyond the document                        (item.range, item.selectionRange)
   u32::MAX does not fit TLC's integers: it is emitted as -1 and substituted by the transport; the
   concrete strings of the name / character classes are a table of the transport as well.

   Expectation of every cell (judged by LsProtocolTrace on the recorded stream): the request is
   dispatched, its task finishes, exactly one response, which is a result or null ("ok").           *)
EXTENDS Naturals, Integers, Sequences, FiniteSets, TLC, Json, IOUtils

CONSTANTS K,           \* overshoot used by the "+ k" classes
          TokSel,      \* anchor tokens of point requests: "ends" = first, middle, last; "all" = every token
          RangeTokSel, \* anchor tokens of range requests and of lists of >= 2 positions: "mid" | "ends" | "all"
          QuadTokSel,  \* anchor tokens of two-range requests
          SecClasses,  \* classes the slots of two-range requests and of lists of 3 positions are drawn from
          ListMax      \* longest list of positions (0..3)

ASSUME TLCSet(2, ndJsonDeserialize(IOEnv.DOCS))
Docs == TLCGet(2)

PosClasses == {"docStart", "tokStart", "tokInside", "eol", "eolPlus", "lastEnd", "lastPlus", "lineBeyond", "max"}
ASSUME SecClasses \subseteq PosClasses

PointReqs == {"textDocument/hover", "textDocument/definition", "textDocument/references",
              "textDocument/prepareRename", "textDocument/completion", "textDocument/signatureHelp",
              "textDocument/documentHighlight", "textDocument/prepareCallHierarchy",
              "textDocument/implementation", "inlayHint/resolve",
              "textDocument/rename", "textDocument/onTypeFormatting"}
ListReqs == {"textDocument/selectionRange"}
RangeReqs == {"textDocument/rangeFormatting", "textDocument/inlayHint", "textDocument/colorPresentation",
              "documentLink/resolve", "codeLens/resolve"}
QuadReqs == {"textDocument/inlineValue", "textDocument/codeAction",
             "callHierarchy/incomingCalls", "callHierarchy/outgoingCalls"}

\* the position-like parameters of a request, in the order of the cell's classes
Slots(req) ==
  CASE req \in PointReqs -> <<"position">>
    [] req \in ListReqs -> <<"positions[]">>
    [] req \in RangeReqs -> <<"range.start", "range.end">>
    [] req = "textDocument/inlineValue" ->
         <<"range.start", "range.end", "context.stoppedLocation.start", "context.stoppedLocation.end">>
    [] req = "textDocument/codeAction" ->
         <<"range.start", "range.end", "context.diagnostics[].range.start", "context.diagnostics[].range.end">>
    [] OTHER -> <<"item.range.start", "item.range.end", "item.selectionRange.start", "item.selectionRange.end">>

\* string parameters that accompany a position: classes (the transport owns the concrete strings)
NameClasses == {"ident", "empty", "keyword", "space", "digit", "nonascii"}    \* rename: newName
ChClasses == {"newline", "letter", "empty", "astral"}                         \* onTypeFormatting: ch
OptClasses(req) == CASE req = "textDocument/rename" -> NameClasses
                     [] req = "textDocument/onTypeFormatting" -> ChClasses
                     [] OTHER -> {"-"}
\* codes of the diagnostics a codeAction request carries (one diagnostic per code, all at the drawn range)
DiagCodes == <<"need-check-nil", "unknown-doc-tag", "preferred-local-alias", "undefined-global", "syntax-error">>

NLines(doc) == Len(doc.lines)
LineLen(doc, line) == doc.lines[line + 1]

\* (line, character) denoted by class pc relative to token t of doc (t = 0: the document has no token)
Position(doc, t, pc) ==
  LET nl == NLines(doc)
      tl == IF t = 0 THEN 0 ELSE doc.toks[t][1]
      tc == IF t = 0 THEN 0 ELSE doc.toks[t][2]
      tn == IF t = 0 THEN 0 ELSE doc.toks[t][3]
  IN CASE pc = "docStart" -> <<0, 0>>
       [] pc = "tokStart" -> <<tl, tc>>
       [] pc = "tokInside" -> <<tl, tc + (tn \div 2)>>
       [] pc = "eol" -> <<tl, LineLen(doc, tl)>>
       [] pc = "eolPlus" -> <<tl, LineLen(doc, tl) + K>>
       [] pc = "lastEnd" -> <<nl - 1, LineLen(doc, nl - 1)>>
       [] pc = "lastPlus" -> <<nl - 1, LineLen(doc, nl - 1) + K>>
       [] pc = "lineBeyond" -> <<nl - 1 + K, 0>>
       [] pc = "max" -> <<-1, -1>>

\* does the position name a place of the document (after clamping the character to the line)?
Denotes(doc, p) == p[1] >= 0 /\ p[1] < NLines(doc)

Sel(doc, sel) ==
  LET n == Len(doc.toks) IN
  IF n = 0 THEN {0}
  ELSE IF sel = "all" THEN 1..n
  ELSE IF sel = "mid" THEN {(n + 1) \div 2}
  ELSE {1, (n + 1) \div 2, n}

Tuples(S, n) == [1..n -> S]

\* class tuples of a request and the anchor tokens they are placed at
Shape(req) ==
  CASE req \in PointReqs -> {[n |-> 1, cls |-> PosClasses, sel |-> TokSel]}
    [] req \in ListReqs -> {[n |-> 0, cls |-> PosClasses, sel |-> "mid"],
                            [n |-> 1, cls |-> PosClasses, sel |-> TokSel],
                            [n |-> 2, cls |-> PosClasses, sel |-> RangeTokSel],
                            [n |-> 3, cls |-> SecClasses, sel |-> RangeTokSel]}
    [] req \in RangeReqs -> {[n |-> 2, cls |-> PosClasses, sel |-> RangeTokSel]}
    [] OTHER -> {[n |-> 4, cls |-> SecClasses, sel |-> QuadTokSel]}

AllReqs == PointReqs \cup ListReqs \cup RangeReqs \cup QuadReqs

Cells ==
  UNION {
    UNION {
      UNION {
        {[d |-> di, req |-> r, t |-> t, pcs |-> pcs, opt |-> o] :
            t \in Sel(Docs[di], sh.sel), pcs \in Tuples(sh.cls, sh.n), o \in OptClasses(r)}
        : sh \in {x \in Shape(r) : x.n <= ListMax \/ r \notin ListReqs}}
      : r \in AllReqs}
    : di \in 1..Len(Docs)}

VARIABLE cell
Init == cell \in Cells
Next == UNCHANGED cell
Spec == Init /\ [][Next]_cell

Before(p, q) == p[1] < q[1] \/ (p[1] = q[1] /\ p[2] < q[2])

\* how the second range of a two-range request lies relative to the first (by their start positions)
Relation(doc, c) ==
  IF Len(c.pcs) # 4 THEN "-"
  ELSE LET a == Position(doc, c.t, c.pcs[1])
           b == Position(doc, c.t, c.pcs[3]) IN
       IF ~Denotes(doc, a) \/ ~Denotes(doc, b) THEN "second-or-first-beyond"
       ELSE IF Before(b, a) THEN "second-before-first"
       ELSE IF Before(a, b) THEN "second-after-first"
       ELSE "same-start"

Concrete(c) ==
  LET doc == Docs[c.d] IN
  [doc |-> doc.cls, req |-> c.req, tok |-> c.t, pcs |-> c.pcs, slots |-> Slots(c.req), opt |-> c.opt,
   codes |-> IF c.req = "textDocument/codeAction" THEN DiagCodes ELSE <<>>,
   pos |-> [i \in 1..Len(c.pcs) |-> Position(doc, c.t, c.pcs[i])],
   denotes |-> [i \in 1..Len(c.pcs) |-> Denotes(doc, Position(doc, c.t, c.pcs[i]))],
   rel |-> Relation(doc, c),
   expect |-> "ok"]

\* sanity of the reference itself: the in-document classes denote, the beyond classes do not
ClassesOK ==
  LET doc == Docs[cell.d] IN
  \A i \in 1..Len(cell.pcs) :
    LET p == Position(doc, cell.t, cell.pcs[i]) IN
      /\ cell.pcs[i] \in {"docStart", "tokStart", "tokInside", "eol", "eolPlus", "lastEnd", "lastPlus"} => Denotes(doc, p)
      /\ cell.pcs[i] \in {"lineBeyond", "max"} => ~Denotes(doc, p)
      /\ cell.pcs[i] \in {"docStart", "tokStart", "tokInside", "eol", "lastEnd"} => p[2] <= LineLen(doc, p[1])
      /\ cell.pcs[i] \in {"eolPlus", "lastPlus"} => p[2] > LineLen(doc, p[1])

\* the matrix has no blind slot: every request is a cell with as many classes as it has position-like
\* parameters (a list request: as many as the list is long)
ShapeOK == /\ cell.req \in AllReqs
           /\ cell.req \notin ListReqs => Len(cell.pcs) = Len(Slots(cell.req))
           /\ cell.opt \in OptClasses(cell.req)

Emit == PrintT(<<"CELL", ToJson(Concrete(cell))>>)
=============================================================================
