------------------------------ MODULE LsPositions ------------------------------
(* C25: the abstract matrix  document class x position class x position/range-taking request.

   The documents are data (file named by the environment variable DOCS, one JSON object per line):
     [cls   |-> "empty" | "ascii" | "nonascii" | "crlf" | "nonl" | "syntaxerr",
      lines |-> << UTF-16 length of every line as LSP counts lines (LF, CR LF, CR terminate) >>,
      toks  |-> << <<line, col, len>> : 0-based line, UTF-16 column, UTF-16 length of a token >> ]
   A position class is turned into a concrete (line, character) by Position below; this is the reference
   reading of the classes the property statement lists ("beyond the end of a line or of the document").
   A range request gets a pair of classes (every ordered pair, so reversed and empty ranges occur).
   u32::MAX does not fit TLC's integers: it is emitted as -1 and substituted by the transport.

   Expectation of every cell (judged by LsProtocolTrace on the recorded stream): the request is
   dispatched, its task finishes, exactly one response, which is a result or null ("ok").           *)
EXTENDS Naturals, Integers, Sequences, FiniteSets, TLC, Json, IOUtils

CONSTANTS K,        \* overshoot used by the "+ k" classes
          TokSel,   \* tokens used for point requests: "ends" = first, middle, last; "all" = every token
          RangeTokSel  \* tokens used for range requests: "mid" = the middle token; "ends"; "all"

ASSUME TLCSet(2, ndJsonDeserialize(IOEnv.DOCS))
Docs == TLCGet(2)

PosClasses == {"tokStart", "tokInside", "eol", "eolPlus", "lastEnd", "lastPlus", "lineBeyond", "max"}
TokClasses == {"tokStart", "tokInside", "eol", "eolPlus"}
PointReqs == {"textDocument/hover", "textDocument/definition", "textDocument/references", "textDocument/rename",
              "textDocument/prepareRename", "textDocument/completion", "textDocument/signatureHelp",
              "textDocument/documentHighlight", "textDocument/selectionRange",
              "textDocument/prepareCallHierarchy", "textDocument/implementation",
              "textDocument/onTypeFormatting"}
RangeReqs == {"textDocument/inlineValue", "textDocument/codeAction", "textDocument/rangeFormatting",
              "textDocument/inlayHint"}

NLines(doc) == Len(doc.lines)
LineLen(doc, line) == doc.lines[line + 1]

\* (line, character) denoted by class pc relative to token t of doc (t = 0: the document has no token)
Position(doc, t, pc) ==
  LET nl == NLines(doc)
      tl == IF t = 0 THEN 0 ELSE doc.toks[t][1]
      tc == IF t = 0 THEN 0 ELSE doc.toks[t][2]
      tn == IF t = 0 THEN 0 ELSE doc.toks[t][3]
  IN CASE pc = "tokStart" -> <<tl, tc>>
       [] pc = "tokInside" -> <<tl, tc + (tn \div 2)>>
       [] pc = "eol" -> <<tl, LineLen(doc, tl)>>
       [] pc = "eolPlus" -> <<tl, LineLen(doc, tl) + K>>
       [] pc = "lastEnd" -> <<nl - 1, LineLen(doc, nl - 1)>>
       [] pc = "lastPlus" -> <<nl - 1, LineLen(doc, nl - 1) + K>>
       [] pc = "lineBeyond" -> <<nl - 1 + K, 0>>
       [] pc = "max" -> <<-1, -1>>

\* does the position name a place of the document (after clamping the character to the line)?
Denotes(doc, p) == p[1] >= 0 /\ p[1] < NLines(doc)

Sel(doc, sel) ==
  LET n == Len(doc.toks) IN
  IF n = 0 THEN {0}
  ELSE IF sel = "all" THEN 1..n
  ELSE IF sel = "mid" THEN {(n + 1) \div 2}
  ELSE {1, (n + 1) \div 2, n}
Toks(doc) == Sel(doc, TokSel)
RangeToks(doc) == Sel(doc, RangeTokSel)

Cells ==
  UNION {
    {[d |-> di, req |-> r, t |-> t, pcs |-> <<pc>>] :
        r \in PointReqs, t \in Toks(Docs[di]), pc \in PosClasses}
    \cup
    {[d |-> di, req |-> r, t |-> t, pcs |-> <<pc1, pc2>>] :
        r \in RangeReqs, t \in RangeToks(Docs[di]), pc1 \in PosClasses, pc2 \in PosClasses}
    : di \in 1..Len(Docs)}

VARIABLE cell
Init == cell \in Cells
Next == UNCHANGED cell
Spec == Init /\ [][Next]_cell

Concrete(c) ==
  LET doc == Docs[c.d] IN
  [doc |-> doc.cls, req |-> c.req, tok |-> c.t, pcs |-> c.pcs,
   pos |-> [i \in 1..Len(c.pcs) |-> Position(doc, c.t, c.pcs[i])],
   denotes |-> [i \in 1..Len(c.pcs) |-> Denotes(doc, Position(doc, c.t, c.pcs[i]))],
   expect |-> "ok"]

\* sanity of the reference itself: the in-document classes denote, the beyond classes do not
ClassesOK ==
  LET doc == Docs[cell.d] IN
  \A i \in 1..Len(cell.pcs) :
    LET p == Position(doc, cell.t, cell.pcs[i]) IN
      /\ cell.pcs[i] \in {"tokStart", "tokInside", "eol", "eolPlus", "lastEnd", "lastPlus"} => Denotes(doc, p)
      /\ cell.pcs[i] \in {"lineBeyond", "max"} => ~Denotes(doc, p)
      /\ cell.pcs[i] \in {"tokStart", "tokInside", "eol", "lastEnd"} => p[2] <= LineLen(doc, p[1])
      /\ cell.pcs[i] \in {"eolPlus", "lastPlus"} => p[2] > LineLen(doc, p[1])

Emit == PrintT(<<"CELL", ToJson(Concrete(cell))>>)
=============================================================================
