\* thorough, exhaustive part: same bound as quick (3 items over two names is 3.4e6 programs); the depth
\* comes from Scope_ts.cfg (simulation) and Scope_t1.cfg (one name, 3 items, exhaustive)
SPECIFICATION Spec
CONSTANTS
  NameSeq <- NamesAB
  Rich = TRUE
  MaxItems = 2
  MaxDepth = 2
  MinEmit = 1
  EmitMod = 1
  ForNumKind = "ForRange"
  LoaOrder = "reverse"
  CheckAgree = TRUE
INVARIANTS SameSites Agree Emit
