---------------------------- MODULE GreenBuilder ----------------------------
(* Transcription of the green-tree builder of emmylua_parser (C01):
     crates/emmylua_parser/src/syntax/tree/lua_green_builder.rs   LuaGreenNodeBuilder
       token / start_node / finish_node (three re-parenting rules, early return) / finish
     crates/emmylua_parser/src/syntax/tree/lua_tree_builder.rs     LuaTreeBuilder::build
       (implicit Chunk start before the first event and one finish_node after the last)

   Builder calls are abstracted to the classes the code distinguishes:
     node kinds   "Chunk","Block"   re-parent the run of trivia *before* the node into it
                  "Comment","MLUnion"  trim leading/trailing whitespace tokens out of the node
                  "DocDesc","Other"    trim leading/trailing trivia out of the node
                  (Comment and DocDesc nodes are themselves trivia)
     token kinds  "ws"    TkWhitespace | TkEndOfLine      (trivia and trivia-whitespace)
                  "cont"  TkDocContinue                   (trivia, not trivia-whitespace)
                  "plain" everything else
   Indexes are the Rust 0-based ones; Ch(c, i) is children[i].

   Design check (this module, GreenBuilder_q/_t.cfg): TLC explores EVERY call sequence of length
   <= MaxCalls between the implicit Chunk start and the final finish_node and checks

       WellFormed /\ EarlyOK /\ ~crossed   =>   ~crashed /\ Lossless          (Safe)

   i.e. the builder keeps every eaten token, in order, under the root it builds -- provided the two
   preconditions hold that the code silently relies on:
     earlyReturn  number of finish_node calls that arrived while `children` was empty: the code returns
                  WITHOUT popping `parents`, so every later finish_node closes the wrong node (EarlyOK: none, or
                  exactly one in a stream that starts with parse_chunk's Block -- shown harmless by TLC);
     crossed      a Block's backward trivia absorption went below the start index of an enclosing
                  open node, which leaves that node's start index stale (mis-nesting, and a panic
                  in `drain` once the stale index exceeds the length).
   The cfgs GreenBuilder_neg*.cfg drop one precondition each (and well-formedness) and TLC must find
   the token-dropping / panicking call sequence; that is what tells which event shapes the builder
   cannot take.  ParserTrace.tla then checks on recorded event streams of the real parser that the
   preconditions hold and that the tree this transcription predicts is the tree rowan built. *)
EXTENDS Naturals, Sequences, FiniteSets, TLC

CONSTANTS MaxCalls,         \* bound on the number of calls explored (design check only)
          GenKinds, GenToks \* node kinds / token classes the design check generates

NodeKinds  == {"Chunk", "Block", "Comment", "MLUnion", "DocDesc", "Other"}
TokClasses == {"ws", "cont", "plain"}
ASSUME GenKinds \subseteq NodeKinds /\ GenToks \subseteq TokClasses

VARIABLES
  parents,     \* Seq of [k: node kind, fs: start index into children]
  children,    \* Seq of element ids (indexes into elements, 1-based)
  elements,    \* Seq of [t:"tok", c: class, id: Nat] | [t:"node", k: kind, ch: Seq of element ids]
  ntok,        \* number of tokens eaten so far (token ids are 1..ntok in eating order)
  opened,      \* number of start_node calls so far (incl. the implicit Chunk)
  closed,      \* number of finish_node calls so far
  underflow,   \* some finish_node had no node of the stream to close: a non-final one would close the
               \* implicit Chunk (or nothing), or the final one finds the Chunk already closed
  earlyReturn, \* see above (number of such calls)
  firstBlock,  \* the first call after the implicit Chunk start is start_node(Block) (parse_chunk's Block)
  crossed,     \* see above
  crashed,     \* the Rust code would have panicked (slice index out of range)
  done         \* the final finish_node has been issued; `finish()` may be evaluated

bvars == <<parents, children, elements, ntok, opened, closed, underflow, earlyReturn, firstBlock, crossed, crashed, done>>

Ch(c, i) == c[i + 1]                          \* Rust children[i]
Last(s) == s[Len(s)]
Front(s) == SubSeq(s, 1, Len(s) - 1)

IsTrivia(els, e) ==
  \/ els[e].t = "tok"  /\ els[e].c \in {"ws", "cont"}
  \/ els[e].t = "node" /\ els[e].k \in {"Comment", "DocDesc"}
IsTriviaWs(els, e) == els[e].t = "tok" /\ els[e].c = "ws"

BInit ==
  /\ parents = <<[k |-> "Chunk", fs |-> 0]>>   \* LuaTreeBuilder::build: self.start_node(Chunk)
  /\ children = <<>> /\ elements = <<>> /\ ntok = 0
  /\ opened = 1 /\ closed = 0
  /\ underflow = FALSE /\ earlyReturn = 0 /\ firstBlock = FALSE /\ crossed = FALSE /\ crashed = FALSE /\ done = FALSE

\* LuaGreenNodeBuilder::token
Token(c) ==
  /\ elements' = Append(elements, [t |-> "tok", c |-> c, id |-> ntok + 1])
  /\ children' = Append(children, Len(elements) + 1)
  /\ ntok' = ntok + 1
  /\ UNCHANGED <<parents, opened, closed, underflow, earlyReturn, firstBlock, crossed, crashed, done>>

\* LuaGreenNodeBuilder::start_node
StartNode(k) ==
  /\ parents' = Append(parents, [k |-> k, fs |-> Len(children)])
  /\ opened' = opened + 1
  /\ firstBlock' = (firstBlock \/ (opened = 1 /\ closed = 0 /\ ntok = 0 /\ k = "Block"))
  /\ UNCHANGED <<children, elements, ntok, closed, underflow, earlyReturn, crossed, crashed, done>>

\* while child_start > 0 && is_trivia(children[child_start - 1]) { child_start -= 1 }
\* (indexing children[cs - 1] with cs - 1 >= len panics; reported through WalkBackPanics)
RECURSIVE WalkBack(_, _, _)
WalkBack(els, c, cs) ==
  IF cs > 0 /\ cs - 1 < Len(c) /\ IsTrivia(els, Ch(c, cs - 1)) THEN WalkBack(els, c, cs - 1) ELSE cs
WalkBackPanics(c, fs) == fs > 0 /\ fs - 1 >= Len(c)

\* while child_start < child_count && triv(children[child_start]) { child_start += 1 }
RECURSIVE SkipFwd(_, _, _, _)
SkipFwd(els, c, cs, ws) ==
  IF cs < Len(c) /\ (IF ws THEN IsTriviaWs(els, Ch(c, cs)) ELSE IsTrivia(els, Ch(c, cs)))
  THEN SkipFwd(els, c, cs + 1, ws) ELSE cs
\* while child_end > child_start && triv(children[child_end]) { child_end -= 1 }
RECURSIVE SkipBack(_, _, _, _, _)
SkipBack(els, c, ce, cs, ws) ==
  IF ce > cs /\ (IF ws THEN IsTriviaWs(els, Ch(c, ce)) ELSE IsTrivia(els, Ch(c, ce)))
  THEN SkipBack(els, c, ce - 1, cs, ws) ELSE ce

\* start index of the open node that encloses the one being finished (0 if none)
EnclosingStart == IF Len(parents) >= 2 THEN parents[Len(parents) - 1].fs ELSE 0

\* LuaGreenNodeBuilder::finish_node (everything but the bookkeeping of `done`).
\* `final` = this is the trailing finish_node of LuaTreeBuilder::build (an early return there is harmless)
FinishCore(final) ==
  /\ closed' = closed + 1
  /\ underflow' = (underflow \/ (IF final THEN closed >= opened ELSE closed + 1 >= opened))
  /\ UNCHANGED <<ntok, opened, firstBlock>>
  /\ IF parents = <<>> \/ children = <<>>
     THEN \* early return: nothing popped
          /\ earlyReturn' = earlyReturn + (IF parents # <<>> /\ ~final THEN 1 ELSE 0)
          /\ UNCHANGED <<parents, children, elements, crossed, crashed>>
     ELSE
       LET p  == Last(parents)
           n  == Len(children)
           pos == Len(elements) + 1
       IN
       /\ parents' = Front(parents)
       /\ earlyReturn' = earlyReturn
       /\ IF p.k \in {"Block", "Chunk"}
          THEN
            IF WalkBackPanics(children, p.fs) \/ p.fs > n
            THEN /\ crashed' = TRUE /\ UNCHANGED <<children, elements, crossed>>
            ELSE
              LET cs == WalkBack(elements, children, p.fs) IN   \* first_start = min(fs, cs) = cs
              /\ elements' = Append(elements, [t |-> "node", k |-> p.k, ch |-> SubSeq(children, cs + 1, n)])
              /\ children' = Append(SubSeq(children, 1, cs), pos)    \* child_end + 1 = child_count: push
              /\ crossed' = (crossed \/ cs < EnclosingStart)
              /\ crashed' = crashed
          ELSE
            LET ws == p.k \in {"Comment", "MLUnion"}
                cs == SkipFwd(elements, children, p.fs, ws)
                ce == SkipBack(elements, children, n - 1, cs, ws)   \* may be cs - 1 (empty range)
            IN
            IF cs > ce + 1          \* children.drain(cs..=ce) panics: start > end + 1 (stale fs > len)
            THEN /\ crashed' = TRUE /\ UNCHANGED <<children, elements, crossed>>
            ELSE
              /\ elements' = Append(elements, [t |-> "node", k |-> p.k, ch |-> SubSeq(children, cs + 1, ce + 1)])
              /\ children' = IF ce + 1 < n
                             THEN SubSeq(children, 1, cs) \o <<pos>> \o SubSeq(children, ce + 2, n)  \* insert(cs, pos)
                             ELSE Append(SubSeq(children, 1, cs), pos)                               \* push(pos)
              /\ UNCHANGED <<crossed, crashed>>

FinishNode  == FinishCore(FALSE) /\ UNCHANGED done
FinalFinish == FinishCore(TRUE) /\ done' = TRUE     \* LuaTreeBuilder::build: the trailing self.finish_node()

\* ------------------------------------------------------------------------------------------------
\* finish(): the root is built from the FIRST element of `children` only
RECURSIVE FlattenEl(_, _)
FlattenSeq(els, s) ==
  LET RECURSIVE F(_)
      F(i) == IF i > Len(s) THEN <<>> ELSE FlattenEl(els, s[i]) \o F(i + 1)
  IN F(1)
FlattenEl(els, e) == IF els[e].t = "tok" THEN <<els[e].id>> ELSE FlattenSeq(els, els[e].ch)

TreeTokens == IF children = <<>> THEN <<>> ELSE FlattenEl(elements, children[1])
EatenTokens == [i \in 1..ntok |-> i]
Lossless == TreeTokens = EatenTokens
\* the element finish() turns into the root is the Chunk opened by build() (no re-wrapping needed)
RootIsChunk == children # <<>> /\ elements[children[1]].t = "node" /\ elements[children[1]].k = "Chunk"

WellFormed == ~underflow /\ opened = closed

\* ------------------------------------------------------------------------------------------------
\* Design check: all call sequences
Next ==
  /\ ~done /\ ~crashed
  /\ \/ /\ opened + closed + ntok < MaxCalls + 1
        /\ \/ \E c \in GenToks : Token(c)
           \/ \E k \in GenKinds : StartNode(k)
           \/ FinishNode
     \/ FinalFinish
Spec == BInit /\ [][Next]_bvars

\* the claim, evaluated where finish() would run (and at a panic).
\* One early return is harmless when the stream starts with parse_chunk's Block: that Block starts at index 0,
\* is closed by the trailing finish_node instead of the Chunk, and drains everything (the root is then a
\* Block that finish() re-wraps in a Chunk).  Real streams do this (a file whose first token starts no statement).
EarlyOK == earlyReturn = 0 \/ (earlyReturn = 1 /\ firstBlock)
Safe == (done \/ crashed) =>
          (WellFormed /\ EarlyOK /\ ~crossed => ~crashed /\ Lossless /\ (ntok > 0 /\ earlyReturn = 0 => RootIsChunk))

\* deliberately too strong claims; TLC must refute each (GreenBuilder_neg*.cfg)
NeedsNoEarlyReturn == done => (WellFormed /\ ~crossed => Lossless)
NeedsNoCrossing    == (done \/ crashed) => (~underflow /\ earlyReturn = 0 => ~crashed)
NeedsWellFormed    == done => (earlyReturn = 0 /\ ~crossed => Lossless)
=============================================================================
