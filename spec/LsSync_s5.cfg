SPECIFICATION Spec
VIEW view
CONSTANTS
  Uris = {"u1"}
  Texts = {"t1"}
  MaxMsgs = 3
  MsgKinds = {"open","change","close","save"}
  MaxCfg = 0
  MaxDisk = 0
  OnDisk = {}
  InlineOpen = TRUE
  InlineChange = TRUE
  InlineClose = TRUE
  EnableReindex = TRUE
INVARIANTS Emit
