SPECIFICATION Spec
CONSTANTS
  MaxItems = 14
  Levels = {"Lua5.1", "Lua5.4", "LuaJIT"}
  TypeDepth = 2
  Randomised = TRUE
INVARIANTS Bounded CorruptTargetsExist Emit
