SPECIFICATION Spec
CONSTANTS
  ExhLen = 3
  CoreLen = 4
  SampleLens = {4, 5, 6, 7, 8}
  SampleCount = 2500
INVARIANTS Emit
