------------------------------ MODULE NestMatrix ------------------------------
(* C02 (crash / stack part): the nesting matrix.

   A case is  construct x depth x language level.  Its text is
        prefix ++ open^depth ++ core ++ close^depth ++ suffix
   so one record describes nesting (open/close around a core), right-recursive chains (open only) and
   left-deep suffix chains (close only).  TLC enumerates the matrix and prints every case with the expected
   outcome, which is the same for every case: the parser RETURNS a tree and an error list (no abort, no
   panic, no time-out), the tree's text has the length of the input, well-formed input of
   moderate depth (<= CleanUpTo) carries no error, and -- because the parser bounds its recursion like the
   reference Lua does -- input nested deeper than the limit carries at least one syntax error.  Whether the machine stack of a
   2 MiB thread suffices is outside what TLA+ can model: that is what the replay (one subprocess per case)
   observes.  The ladder also gives the CPU-time growth exponent between successive depths. *)
EXTENDS Naturals, Sequences, FiniteSets, TLC, Json

CONSTANTS Depths, Levels, EvK, EvC,
          CleanUpTo,       \* well-formed input nested at most this deep must parse without any error
          MustErrorAbove   \* nested / right-recursive input deeper than this exceeds the parser's recursion limit
                           \* (200 levels, 100 for doc types) and must carry at least one error

Constructs ==
  { [name |-> "paren", shape |-> "nested",        doc |-> FALSE, prefix |-> "local x = ", open |-> "(", core |-> "1", close |-> ")", suffix |-> "\n"],
    [name |-> "table", shape |-> "nested",        doc |-> FALSE, prefix |-> "local x = ", open |-> "{", core |-> "1", close |-> "}", suffix |-> "\n"],
    [name |-> "table-field", shape |-> "nested",  doc |-> FALSE, prefix |-> "local x = ", open |-> "{a=", core |-> "1", close |-> "}", suffix |-> "\n"],
    [name |-> "closure", shape |-> "nested",      doc |-> FALSE, prefix |-> "local x = ", open |-> "function() return ", core |-> "1", close |-> " end", suffix |-> "\n"],
    [name |-> "func-stat", shape |-> "nested",    doc |-> FALSE, prefix |-> "", open |-> "function f() ", core |-> "", close |-> " end", suffix |-> "\n"],
    [name |-> "do-block", shape |-> "nested",     doc |-> FALSE, prefix |-> "", open |-> "do ", core |-> "", close |-> " end", suffix |-> "\n"],
    [name |-> "if-nest", shape |-> "nested",      doc |-> FALSE, prefix |-> "", open |-> "if a then ", core |-> "", close |-> " end", suffix |-> "\n"],
    [name |-> "while-nest", shape |-> "nested",   doc |-> FALSE, prefix |-> "", open |-> "while a do ", core |-> "", close |-> " end", suffix |-> "\n"],
    [name |-> "elseif-chain", shape |-> "flat", doc |-> FALSE, prefix |-> "if a then ", open |-> "elseif a then ", core |-> "", close |-> "", suffix |-> "end\n"],
    [name |-> "unary-minus", shape |-> "right",  doc |-> FALSE, prefix |-> "local x = ", open |-> "- ", core |-> "1", close |-> "", suffix |-> "\n"],
    [name |-> "unary-not", shape |-> "right",    doc |-> FALSE, prefix |-> "local x = ", open |-> "not ", core |-> "a", close |-> "", suffix |-> "\n"],
    [name |-> "concat-right", shape |-> "right", doc |-> FALSE, prefix |-> "local x = ", open |-> "a .. ", core |-> "a", close |-> "", suffix |-> "\n"],
    [name |-> "pow-right", shape |-> "right",    doc |-> FALSE, prefix |-> "local x = ", open |-> "2 ^ ", core |-> "2", close |-> "", suffix |-> "\n"],
    [name |-> "add-left", shape |-> "left",     doc |-> FALSE, prefix |-> "local x = ", open |-> "", core |-> "1", close |-> " + 1", suffix |-> "\n"],
    [name |-> "index-chain", shape |-> "left",  doc |-> FALSE, prefix |-> "local x = a", open |-> "", core |-> "", close |-> ".b", suffix |-> "\n"],
    [name |-> "call-chain", shape |-> "left",   doc |-> FALSE, prefix |-> "f", open |-> "", core |-> "", close |-> "()", suffix |-> "\n"],
    [name |-> "call-arg", shape |-> "nested",     doc |-> FALSE, prefix |-> "", open |-> "f(", core |-> "1", close |-> ")", suffix |-> "\n"],
    [name |-> "open-paren", shape |-> "broken",   doc |-> FALSE, prefix |-> "local x = ", open |-> "(", core |-> "", close |-> "", suffix |-> "\n"],
    [name |-> "open-brace", shape |-> "broken",   doc |-> FALSE, prefix |-> "local x = ", open |-> "{", core |-> "", close |-> "", suffix |-> "\n"],
    [name |-> "open-func", shape |-> "broken",    doc |-> FALSE, prefix |-> "", open |-> "function f() ", core |-> "", close |-> "", suffix |-> "\n"],
    [name |-> "close-only", shape |-> "broken",   doc |-> FALSE, prefix |-> "", open |-> "", core |-> "", close |-> "end ) } ", suffix |-> "\n"],
    [name |-> "doc-generic", shape |-> "nested",  doc |-> TRUE,  prefix |-> "---@type ", open |-> "A<", core |-> "B", close |-> ">", suffix |-> "\nlocal x\n"],
    [name |-> "doc-paren", shape |-> "nested",    doc |-> TRUE,  prefix |-> "---@type ", open |-> "(", core |-> "B", close |-> ")", suffix |-> "\nlocal x\n"],
    [name |-> "doc-union", shape |-> "left",    doc |-> TRUE,  prefix |-> "---@type ", open |-> "A|", core |-> "B", close |-> "", suffix |-> "\nlocal x\n"],
    [name |-> "doc-array", shape |-> "left",    doc |-> TRUE,  prefix |-> "---@type A", open |-> "", core |-> "", close |-> "[]", suffix |-> "\nlocal x\n"],
    [name |-> "doc-fun", shape |-> "nested",      doc |-> TRUE,  prefix |-> "---@type ", open |-> "fun(a:", core |-> "B", close |-> ")", suffix |-> "\nlocal x\n"],
    [name |-> "doc-table", shape |-> "nested",    doc |-> TRUE,  prefix |-> "---@type ", open |-> "{a:", core |-> "B", close |-> "}", suffix |-> "\nlocal x\n"],
    [name |-> "doc-tuple", shape |-> "nested",    doc |-> TRUE,  prefix |-> "---@type ", open |-> "[", core |-> "B", close |-> "]", suffix |-> "\nlocal x\n"],
    [name |-> "doc-open", shape |-> "broken",     doc |-> TRUE,  prefix |-> "---@type ", open |-> "A<", core |-> "", close |-> "", suffix |-> "\nlocal x\n"],
    [name |-> "doc-nullable", shape |-> "left", doc |-> TRUE,  prefix |-> "---@type A", open |-> "", core |-> "", close |-> "?", suffix |-> "\nlocal x\n"] }

\* shape: "nested"  open/close around a core: the grammar recurses once (or twice) per level
\*        "right"   right-recursive operator chain: the grammar recurses once per link
\*        "left"    left-associative / suffix chain: parsed by iteration, but the TREE is `depth` deep
\*        "flat"    a long sequence without nesting
\*        "broken"  unbalanced input (only "returns a tree" is expected)
VARIABLE case
Init == case \in {[c |-> c, depth |-> d, level |-> lv] : c \in Constructs, d \in Depths, lv \in Levels}
Next == UNCHANGED case
Spec == Init /\ [][Next]_case

TextLen(k) == Len(k.c.prefix) + k.depth * (Len(k.c.open) + Len(k.c.close)) + Len(k.c.core) + Len(k.c.suffix)

Expected(k) == [outcome |-> "tree",
                len |-> TextLen(k),
                clean |-> (k.c.shape # "broken" /\ k.depth <= CleanUpTo),
                must_error |-> (k.c.shape \in {"nested", "right"} /\ k.depth > MustErrorAbove),
                \* machine-independent linear-work bound (same as ParserTrace!I_lin): events <= ev_k*(bytes+1)+ev_c
                ev_k |-> EvK, ev_c |-> EvC]

Emit == PrintT(<<"CASE", ToJson([construct |-> case.c.name, shape |-> case.c.shape, doc |-> case.c.doc, level |-> case.level, depth |-> case.depth,
                                 prefix |-> case.c.prefix, open |-> case.c.open, core |-> case.c.core,
                                 close |-> case.c.close, suffix |-> case.c.suffix, expect |-> Expected(case)])>>)
=============================================================================
