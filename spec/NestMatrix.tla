------------------------------ MODULE NestMatrix ------------------------------
(* C02 (crash / stack part): the nesting matrix.

   A case is  construct x depth x language level.  Its text is
        prefix ++ open^depth ++ core ++ close^depth ++ suffix
   so one record describes nesting (open/close around a core), right-recursive chains (open only) and
   left-deep suffix chains (close only).  TLC enumerates the matrix and prints every case with the expected
   outcome, which is the same for every case: the parser RETURNS a tree and an error list (no abort, no
   panic, no time-out), the tree's text has the length of the input, and -- because the parser bounds its
   recursion -- the tree's depth is bounded by a constant independent of `depth` (TreeDepthBound) while
   inputs nested deeper than the limit carry at least one syntax error.  Whether the machine stack of a
   2 MiB thread suffices is outside what TLA+ can model: that is what the replay (one subprocess per case)
   observes.  The ladder also gives the CPU-time growth exponent between successive depths. *)
EXTENDS Naturals, Sequences, FiniteSets, TLC, Json

CONSTANTS Depths, Levels, TreeDepthBound, MustErrorAbove

Constructs ==
  { [name |-> "paren",        doc |-> FALSE, prefix |-> "local x = ", open |-> "(", core |-> "1", close |-> ")", suffix |-> "\n"],
    [name |-> "table",        doc |-> FALSE, prefix |-> "local x = ", open |-> "{", core |-> "1", close |-> "}", suffix |-> "\n"],
    [name |-> "table-field",  doc |-> FALSE, prefix |-> "local x = ", open |-> "{a=", core |-> "1", close |-> "}", suffix |-> "\n"],
    [name |-> "closure",      doc |-> FALSE, prefix |-> "local x = ", open |-> "function() return ", core |-> "1", close |-> " end", suffix |-> "\n"],
    [name |-> "func-stat",    doc |-> FALSE, prefix |-> "", open |-> "function f() ", core |-> "", close |-> " end", suffix |-> "\n"],
    [name |-> "do-block",     doc |-> FALSE, prefix |-> "", open |-> "do ", core |-> "", close |-> " end", suffix |-> "\n"],
    [name |-> "if-nest",      doc |-> FALSE, prefix |-> "", open |-> "if a then ", core |-> "", close |-> " end", suffix |-> "\n"],
    [name |-> "while-nest",   doc |-> FALSE, prefix |-> "", open |-> "while a do ", core |-> "", close |-> " end", suffix |-> "\n"],
    [name |-> "elseif-chain", doc |-> FALSE, prefix |-> "if a then ", open |-> "elseif a then ", core |-> "", close |-> "", suffix |-> "end\n"],
    [name |-> "unary-minus",  doc |-> FALSE, prefix |-> "local x = ", open |-> "- ", core |-> "1", close |-> "", suffix |-> "\n"],
    [name |-> "unary-not",    doc |-> FALSE, prefix |-> "local x = ", open |-> "not ", core |-> "a", close |-> "", suffix |-> "\n"],
    [name |-> "concat-right", doc |-> FALSE, prefix |-> "local x = ", open |-> "a .. ", core |-> "a", close |-> "", suffix |-> "\n"],
    [name |-> "pow-right",    doc |-> FALSE, prefix |-> "local x = ", open |-> "2 ^ ", core |-> "2", close |-> "", suffix |-> "\n"],
    [name |-> "add-left",     doc |-> FALSE, prefix |-> "local x = ", open |-> "", core |-> "1", close |-> " + 1", suffix |-> "\n"],
    [name |-> "index-chain",  doc |-> FALSE, prefix |-> "local x = a", open |-> "", core |-> "", close |-> ".b", suffix |-> "\n"],
    [name |-> "call-chain",   doc |-> FALSE, prefix |-> "f", open |-> "", core |-> "", close |-> "()", suffix |-> "\n"],
    [name |-> "call-arg",     doc |-> FALSE, prefix |-> "", open |-> "f(", core |-> "1", close |-> ")", suffix |-> "\n"],
    [name |-> "open-paren",   doc |-> FALSE, prefix |-> "local x = ", open |-> "(", core |-> "", close |-> "", suffix |-> "\n"],
    [name |-> "open-brace",   doc |-> FALSE, prefix |-> "local x = ", open |-> "{", core |-> "", close |-> "", suffix |-> "\n"],
    [name |-> "open-func",    doc |-> FALSE, prefix |-> "", open |-> "function f() ", core |-> "", close |-> "", suffix |-> "\n"],
    [name |-> "close-only",   doc |-> FALSE, prefix |-> "", open |-> "", core |-> "", close |-> "end ) } ", suffix |-> "\n"],
    [name |-> "doc-generic",  doc |-> TRUE,  prefix |-> "---@type ", open |-> "A<", core |-> "B", close |-> ">", suffix |-> "\nlocal x\n"],
    [name |-> "doc-paren",    doc |-> TRUE,  prefix |-> "---@type ", open |-> "(", core |-> "B", close |-> ")", suffix |-> "\nlocal x\n"],
    [name |-> "doc-union",    doc |-> TRUE,  prefix |-> "---@type ", open |-> "A|", core |-> "B", close |-> "", suffix |-> "\nlocal x\n"],
    [name |-> "doc-array",    doc |-> TRUE,  prefix |-> "---@type A", open |-> "", core |-> "", close |-> "[]", suffix |-> "\nlocal x\n"],
    [name |-> "doc-fun",      doc |-> TRUE,  prefix |-> "---@type ", open |-> "fun(a:", core |-> "B", close |-> ")", suffix |-> "\nlocal x\n"],
    [name |-> "doc-table",    doc |-> TRUE,  prefix |-> "---@type ", open |-> "{a:", core |-> "B", close |-> "}", suffix |-> "\nlocal x\n"],
    [name |-> "doc-tuple",    doc |-> TRUE,  prefix |-> "---@type ", open |-> "[", core |-> "B", close |-> "]", suffix |-> "\nlocal x\n"],
    [name |-> "doc-open",     doc |-> TRUE,  prefix |-> "---@type ", open |-> "A<", core |-> "", close |-> "", suffix |-> "\nlocal x\n"],
    [name |-> "doc-nullable", doc |-> TRUE,  prefix |-> "---@type A", open |-> "", core |-> "", close |-> "?", suffix |-> "\nlocal x\n"] }

\* constructs whose nesting depth in the grammar grows with `depth` (the others are chains the grammar may
\* parse by iteration; for those only "returns a tree" and the tree-depth bound are expected)
Nested == {"paren", "table", "table-field", "closure", "func-stat", "do-block", "if-nest", "while-nest", "call-arg",
           "doc-generic", "doc-paren", "doc-fun", "doc-table", "doc-tuple"}

VARIABLE case
Init == case \in {[c |-> c, depth |-> d, level |-> lv] : c \in Constructs, d \in Depths, lv \in Levels}
Next == UNCHANGED case
Spec == Init /\ [][Next]_case

Len1(s) == Len(s)
TextLen(k) == Len(k.c.prefix) + k.depth * (Len(k.c.open) + Len(k.c.close)) + Len(k.c.core) + Len(k.c.suffix)

Expected(k) == [outcome |-> "tree",
                len |-> TextLen(k),
                tree_depth_max |-> TreeDepthBound,
                must_error |-> (k.c.name \in Nested /\ k.depth > MustErrorAbove)]

Emit == PrintT(<<"CASE", ToJson([construct |-> case.c.name, doc |-> case.c.doc, level |-> case.level, depth |-> case.depth,
                                 prefix |-> case.c.prefix, open |-> case.c.open, core |-> case.c.core,
                                 close |-> case.c.close, suffix |-> case.c.suffix, expect |-> Expected(case)])>>)
=============================================================================
