SPECIFICATION Spec
INVARIANT Emit
