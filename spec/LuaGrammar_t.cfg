SPECIFICATION Spec
CONSTANTS
  Versions = {"Lua51", "Lua52", "Lua53", "Lua54", "Lua55", "LuaJIT2"}
  MaxTokens = 6
  Rich = TRUE
  CorruptMax = 5
INVARIANTS Emit
