SPECIFICATION Spec
VIEW view
CONSTANTS
  Uris = {"u1"}
  Texts = {"t1"}
  MaxMsgs = 3
  MsgKinds = {"open","close","cfg"}
  MaxCfg = 1
  MaxDisk = 1
  OnDisk = {"u1"}
  InlineOpen = TRUE
  InlineChange = TRUE
  InlineClose = TRUE
INVARIANTS Emit
