SPECIFICATION Spec
CONSTANTS
  Mode = "paths"
  Tokens = {"a", "sp", "pc", "hash", "qm", "e2", "plus", "lit"}
  MaxComp = 2
  MaxCompLen = 2
  MaxTot = 3
  Depth = 0
INVARIANTS RefLaws EmitPath
