SPECIFICATION Spec
CONSTANTS
  NPaths = 3
  Contents = {"Alias", "Enum", "DiagOff", "Undef", "ClsDoc", "ReqB"}
  Ops = {"update", "reindex"}
  MaxSteps = 5
  EditDist = 1
  Batch = FALSE
  EmitSel = "same"
VIEW View
INVARIANTS ReindexIsIdeal NoLeak C08_Model Emit
