------------------------------- MODULE SchemaGen -------------------------------
(* JSON-schema conversion emits valid annotations (C40).  A THIN use of TLA+: this module is (1) the bounded
   GENERATOR of JSON schemas as trees and (2) the RESULT PREDICATES that judge what the real
   `SchemaConverter::convert` produced.  No reference semantics of the conversion itself.

   Mode = "gen":   a schema is built as the JSON it denotes (functions with string domains print as JSON
                   objects).  Nodes: primitive types, nullable type arrays, string enums, consts, $ref, arrays,
                   objects with one property, additionalProperties, anyOf / oneOf / allOf; property names,
                   definition names, titles and strings are drawn from small sets that contain the odd ones:
                   space, quote, Lua keyword, empty, dash, non-ASCII, newline, backslash (<q> <nl> <bs> <e2>
                   are placeholders the glue substitutes).  Two families keep the product small: A varies the
                   root (title x property name x property schema x description) over fixed definitions,
                   B varies one definition (name x schema) under a fixed root that references it.
                   Family C puts ONE odd string (lone CR, CR LF, tab, NUL, `]]`, `--`, long-bracket opener,
                   non-ASCII, trailing backslash, quote, newline, CR next to a quote, ...) into ONE string
                   position of an otherwise plain schema, for every position from which a string reaches the
                   annotation text (title, definition name, property names, enum / const values inline and in
                   definitions, every kind of description) -- see Slots / SchemaC.
   Mode = "judge": the harness recorded for every case: panic or not, the number of syntax errors the Lua
                   parser reports for `annotation_text`, and whether a `---@class` / `---@alias` with the
                   reported `root_type_name` is declared.  TLC evaluates NoPanic, ParsesClean, DeclaresRoot on
                   every record and prints a VERDICT for each failing one.                                  *)
EXTENDS Integers, Sequences, FiniteSets, TLC, Json, IOUtils

CONSTANTS Mode,     \* "gen" | "judge"
          Depth     \* 1 | 2: nesting of the varied schema node

VARIABLES fam, it, in, ix, id, idx      \* family and the indices of title, name, node, description; record index
vars == <<fam, it, in, ix, id, idx>>

\* Everything is a SEQUENCE (TLC cannot put records of different shapes into one set).
Names == <<"name", "a b", "q<q>x", "end", "", "a-b", "<e2>", "l<nl>m", "$id">>
Strs == <<"red", "q<q>x", "l<nl>m", "<bs><e2>">>
DefNames == <<"Def", "My Def", "q<q>x">>
Titles == <<"none", "Config", "My Config", "q<q>x">>
Descs == <<"none", "plain text", "two<nl>lines", "# hash <q>">>

Map(sq, F(_)) == [i \in 1..Len(sq) |-> F(sq[i])]
\* F over the product of two sequences, row-major
Map2(sa, sb, F(_, _)) == [i \in 1..(Len(sa) * Len(sb)) |-> F(sa[((i - 1) \div Len(sb)) + 1], sb[((i - 1) % Len(sb)) + 1])]

Ref(d) == ("$ref" :> ("#/$defs/" \o d))
T(t) == [type |-> t]
L0 == <<T("string"), T("integer"), [type |-> <<"string", "null">>]>>
      \o Map(Strs, LAMBDA s : [enum |-> <<s, "b">>])
      \o Map(Strs, LAMBDA s : [const |-> s])
      \o Map(DefNames, Ref)
Wrap1(base) ==
         Map(base, LAMBDA x : [type |-> "array", items |-> x])
      \o Map(base, LAMBDA x : [type |-> "object", additionalProperties |-> x])
      \o Map(base, LAMBDA x : [anyOf |-> <<x, T("null")>>])
      \o Map(base, LAMBDA x : [oneOf |-> <<x, T("integer")>>])
      \o Map(base, LAMBDA x : [allOf |-> <<x>>])
      \o Map(base, LAMBDA x : [type |-> "object", properties |-> ("p" :> x), required |-> <<"p">>])
L1 == L0
      \o Wrap1(L0)
      \o Map2(Names, <<T("string"), [enum |-> <<"q<q>x">>]>>, LAMBDA n, x : [type |-> "object", properties |-> (n :> x)])
      \o Map2(Strs, <<"plain", "two<nl>lines">>, LAMBDA s, d : [oneOf |-> <<[const |-> s, description |-> d], [const |-> "b"]>>])
L2 == L1 \o Wrap1(SubSeq(L1, Len(L0) + 1, Len(L1)))
Nodes == IF Depth = 1 THEN L1 ELSE L2

WithDesc(node, d) == IF d = "none" THEN node ELSE node @@ [description |-> d]
WithTitle(sch, t) == IF t = "none" THEN sch ELSE sch @@ [title |-> t]
FixedDefs == ("Def" :> T("string")) @@ ("My Def" :> [enum |-> <<"a">>]) @@ ("q<q>x" :> T("integer"))

\* family A: the root varies (title x property name x property schema x description), definitions fixed
SchemaA(t, n, x, d) == WithTitle([type |-> "object", properties |-> (n :> WithDesc(x, d))] @@ ("$defs" :> FixedDefs), t)
\* family B: one definition varies (name x schema x description); the root is a plain object whose property references it
SchemaB(t, dn, x, d) == WithTitle([type |-> "object", properties |-> ("f" :> Ref(dn))] @@ ("$defs" :> (dn :> WithDesc(x, d))), t)
TitlesB == <<"Config", "none">>
DescsB == <<"none", "two<nl>lines">>

\* family C: one odd string in one string position
OddStrs == <<"a<cr>b", "<cr>", "a<cr><nl>b", "a<tab>b", "a<nul>b", "a]]b", "]]", "--x", "a--[[b", "<e2><e4>", "a<bs>",
             " a ", "#x", "@x", "<q>", "<nl>", "<cr>q<q>", "a<cr>b<bs>", "<u2028>", "a<vt>b<ff>c">>
Slots == <<"title", "defname-alias", "defname-class", "propname", "propname-required", "defprop", "enum-inline",
           "enum-def", "const-inline", "oneof-const-inline", "oneof-const-def", "variant-desc", "typevariant-desc",
           "anyof-desc", "prop-desc", "root-desc", "def-desc-class", "def-desc-enum", "def-desc-alias", "enum-in-array",
           "enum-in-addl", "const-def-prop">>
Obj(props) == [type |-> "object", properties |-> props]
Defs(d) == ("$defs" :> d)
RootRef == Obj("f" :> Ref("D"))
SchemaC(slot, s) ==
  CASE slot = "title" -> [title |-> s] @@ Obj("p" :> T("string"))
    [] slot = "defname-alias" -> Obj("f" :> Ref(s)) @@ Defs(s :> [enum |-> <<"a", "b">>])
    [] slot = "defname-class" -> Obj("f" :> Ref(s)) @@ Defs(s :> Obj("p" :> T("string")))
    [] slot = "propname" -> Obj(s :> T("string"))
    [] slot = "propname-required" -> Obj(s :> T("integer")) @@ [required |-> <<s>>]
    [] slot = "defprop" -> RootRef @@ Defs("D" :> Obj(s :> T("string")))
    [] slot = "enum-inline" -> Obj("p" :> [enum |-> <<s, "b">>])
    [] slot = "enum-def" -> RootRef @@ Defs("D" :> [enum |-> <<"a", s>>])
    [] slot = "const-inline" -> Obj("p" :> [const |-> s])
    [] slot = "oneof-const-inline" -> Obj("p" :> [oneOf |-> <<[const |-> s], [const |-> "b"]>>])
    [] slot = "oneof-const-def" -> RootRef @@ Defs("D" :> [oneOf |-> <<[const |-> s, description |-> "d"], [const |-> "b"]>>])
    [] slot = "variant-desc" -> RootRef @@ Defs("D" :> [oneOf |-> <<[const |-> "a", description |-> s], [const |-> "b"]>>])
    [] slot = "typevariant-desc" -> RootRef @@ Defs("D" :> [oneOf |-> <<[type |-> "string", description |-> s], T("integer")>>])
    [] slot = "anyof-desc" -> RootRef @@ Defs("D" :> [anyOf |-> <<[type |-> "string", description |-> s], T("null")>>])
    [] slot = "prop-desc" -> Obj("p" :> [type |-> "string", description |-> s])
    [] slot = "root-desc" -> [title |-> "Config", description |-> s] @@ Obj("p" :> T("string"))
    [] slot = "def-desc-class" -> RootRef @@ Defs("D" :> ([description |-> s] @@ Obj("p" :> T("string"))))
    [] slot = "def-desc-enum" -> RootRef @@ Defs("D" :> [enum |-> <<"a", "b">>, description |-> s])
    [] slot = "def-desc-alias" -> RootRef @@ Defs("D" :> [type |-> "string", description |-> s])
    [] slot = "enum-in-array" -> Obj("p" :> [type |-> "array", items |-> [enum |-> <<s>>]])
    [] slot = "enum-in-addl" -> Obj("p" :> [type |-> "object", additionalProperties |-> [enum |-> <<s, "b">>]])
    [] slot = "const-def-prop" -> RootRef @@ Defs("D" :> Obj("p" :> [const |-> s]))

Schema == CASE fam = "A" -> SchemaA(Titles[it], Names[in], Nodes[ix], Descs[id])
            [] fam = "B" -> SchemaB(TitlesB[it], DefNames[in], Nodes[ix], DescsB[id])
            [] fam = "C" -> SchemaC(Slots[it], OddStrs[in])

\* ---- result predicates.  A record: [id, panic, msg, errors, declares, root]
NoPanic(r) == r.panic = 0
ParsesClean(r) == r.errors = 0
DeclaresRoot(r) == r.declares = 1

Rec == IF Mode = "judge" THEN ndJsonDeserialize(IOEnv.SCHEMA_RESULTS) ELSE <<>>

Init == IF Mode = "gen"
        THEN /\ fam \in {"A", "B", "C"}
             /\ it \in 1..(CASE fam = "A" -> Len(Titles) [] fam = "B" -> Len(TitlesB) [] fam = "C" -> Len(Slots))
             /\ in \in 1..(CASE fam = "A" -> Len(Names) [] fam = "B" -> Len(DefNames) [] fam = "C" -> Len(OddStrs))
             /\ ix \in 1..(IF fam = "C" THEN 1 ELSE Len(Nodes))
             /\ id \in 1..(CASE fam = "A" -> Len(Descs) [] fam = "B" -> Len(DescsB) [] fam = "C" -> 1)
             /\ idx = 0
        ELSE fam = "" /\ it = 0 /\ in = 0 /\ ix = 0 /\ id = 0 /\ idx \in 1..Len(Rec)
Next == UNCHANGED vars
Spec == Init /\ [][Next]_vars

Emit == Mode = "gen" => PrintT(<<"CASE", ToJson([fam |-> fam, schema |-> Schema,
                                                  slot |-> IF fam = "C" THEN Slots[it] ELSE "", odd |-> IF fam = "C" THEN OddStrs[in] ELSE ""])>>)

Judge == Mode = "judge" =>
  LET r == Rec[idx] IN
  \/ NoPanic(r) /\ ParsesClean(r) /\ DeclaresRoot(r)
  \/ PrintT(<<"VERDICT", ToJson([idx |-> idx, id |-> r.id, nopanic |-> NoPanic(r),
                                 parses |-> NoPanic(r) => ParsesClean(r),
                                 declares |-> NoPanic(r) => DeclaresRoot(r)])>>)
=============================================================================
