\* simulation: random layouts of up to 7 rows / nesting 3; invariants evaluated on every successor, every
\* EmitMod-th (structural hash) printed
SPECIFICATION Spec
CONSTANTS
  MaxRows = 7
  MaxDepth = 3
  EmitMod = 3
  Overlap = "proper"
  EmptyBlockOwner = "parent"
  CheckAgree = TRUE
  TwoComments = FALSE
INVARIANTS CodedEqStated Emit
