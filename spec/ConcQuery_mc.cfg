SPECIFICATION Spec
CONSTANTS
  MaxThreads = 3
  MaxPerThread = 2
  Files = {"a"}
  Progs = {"P1"}
  Kinds = {"diag", "types"}
INVARIANTS SeqEquivalent DbUnchanged Complete
