SPECIFICATION Spec
CONSTANTS
  Depths = {8, 64, 1000, 25000}
  Levels = {"Lua55", "LuaJIT"}
  CleanUpTo = 64
  MustErrorAbove = 200
  EvK = 12
  EvC = 16
INVARIANTS Emit
