SPECIFICATION Spec
CONSTANTS
  Depths = {8, 100, 1000, 10000}
  Levels = {"Lua55", "LuaJIT"}
  TreeDepthBound = 2000
  MustErrorAbove = 999
INVARIANTS Emit
