\* quick, second family: every 2nd (structural hash) layout of <= 4 generated rows with exactly TWO suppression comments
\* (reduced alphabets, see the module header)
SPECIFICATION Spec
CONSTANTS
  MaxRows = 4
  MaxDepth = 2
  EmitMod = 2
  Overlap = "proper"
  EmptyBlockOwner = "parent"
  CheckAgree = TRUE
  TwoComments = TRUE
INVARIANTS CodedEqStated Emit
