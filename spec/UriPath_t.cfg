SPECIFICATION Spec
CONSTANTS
  Mode = "paths"
  Tokens = {"a", "sp", "pc", "hash", "qm", "e2", "plus", "lit"}
  MaxComp = 3
  MaxCompLen = 3
  MaxTot = 4
  Depth = 0
INVARIANTS RefLaws EmitPath
