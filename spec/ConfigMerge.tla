------------------------------ MODULE ConfigMerge ------------------------------
(* Loading and merging configuration files (C31 crash freedom, C32 determinism / later file wins).

   Transcribes crates/emmylua_code_analysis/src/config:
     config_loader.rs   load_configs_raw (fold over the files), merge_values
     flatten_config     FlattenConfigObject::parse = flatten_object, merge, to_emmyrc_json
   in two variants selected by the constant Variant:
     "pinned"  the algorithm of the pinned tree: merge the raw JSON of all files, flatten the merged
               object into a *hash map*, rebuild the nested JSON by iterating that map -- the iteration
               order is NONDETERMINISTIC here (any key of `todo` may be taken next) -- indexing into
               values it assumes are objects (explicit outcome pc = "crashed");
     "fixed"   the algorithm after the fix commits: flatten every file, merge the flat maps (later
               file wins, also over prefix-related keys; arrays appended without duplicates), rebuild
               from an ordered map (sorted iteration) replacing non-objects on the way down.
   and, independently of both, the reference meaning of the property statement (operators named Ref...): a file is a set
   of settings (dotted path -> leaf), spelling is irrelevant, later files win, arrays are appended
   without duplicates.  Where the statement is silent (one file sets a path twice or sets a value and
   something below it; a value in one file and a setting below it in another; a file whose root is not
   an object) only crash freedom and determinism are demanded (Exact = FALSE).

   JSON values are tagged records: [t |-> "s", v |-> n] scalar, [t |-> "a", v |-> <<..>>] array of
   scalars, [t |-> "o", v |-> f] object with f a function whose domain is a set of KEYS; a key is the
   tuple of its dot-separated segments (<<"a","b">> is the JSON key "a.b"), so `split('.')` is the
   identity and `format!("{}.{}")` is concatenation.  [t |-> "n"] is JSON null, [t |-> "X"] a panic.

   A case is a list of files; a file is a set of ENTRIES [ks |-> sequence of keys, v |-> leaf]: the
   path a.b.c can be spelled {"a":{"b":{"c":v}}}, {"a.b":{"c":v}}, {"a":{"b.c":v}}, {"a.b.c":v}.
   TLC enumerates all cases within the bounds (one initial state each), runs the loader as a state
   machine on each (Load, then one Step per flat key, then Finish) and checks
     NoCrash      the loader never reaches pc = "crashed"                                   (C31)
     Confluent    every iteration order ends in the same JSON (that of the sorted order)    (C32)
     LaterWins    on Exact cases the result is the reference result                         (C32)
     FlatIsNested respelling every entry of every file fully flat does not change the result (C32)
   and prints every case with the model's result and the reference result for replay into the real
   `load_configs_raw` / `load_configs`.                                                              *)
EXTENDS Naturals, Sequences, FiniteSets, TLC, Json

CONSTANTS Variant,      \* "fixed" | "pinned"
          Tier,         \* "s" | "q" | "t" | "p" | "p3": the path / leaf alphabet
          MaxFiles,     \* 1..3
          MaxPerFile,   \* entries per file, 1..2
          MaxTotal,     \* total weight of the files of a case (see FilesOfWeight)
          EmitCases     \* TRUE: print every case (replay); FALSE: model checking only

VARIABLES files, pc, flat, todo, out, ref
vars == <<files, pc, flat, todo, out, ref>>

----------------------------------------------------------------------------------------------------
\* TLC evaluates a function expression lazily and re-evaluates its body at every application until the
\* function has been compared or fingerprinted; Fn forces the table once (semantically the identity).
Fn(f) == IF f = f THEN f ELSE f
\* JSON values
S(n) == [t |-> "s", v |-> n]
A(q) == [t |-> "a", v |-> q]
O(f) == [t |-> "o", v |-> Fn(f)]
Null == [t |-> "n", v |-> 0]
Crash == [t |-> "X", v |-> 0]
EmptyObj == O(<<>>)

Put(f, k, v) == Fn([x \in (DOMAIN f) \cup {k} |-> IF x = k THEN v ELSE f[x]])
Items(q) == {q[i] : i \in DOMAIN q}

\* ---- byte order of keys: BTreeMap<String, _> order of the dotted strings.  All segment characters are
\* greater than '.', so the string order is the lexicographic order of the segment tuples.
\* Segments "ab" and "bb" extend "a" resp. "b" as STRINGS without a dot boundary ("a.b" is a string prefix of its
\* sibling "a.bb" but not a dotted prefix); the claim above still holds: a segment that is a proper string prefix
\* of another ranks below it, and what follows it in the dotted string is '.', which is less than every character.
Rank(s) == CASE s = "" -> 0 [] s = "a" -> 1 [] s = "ab" -> 2 [] s = "b" -> 3 [] s = "bb" -> 4 [] s = "c" -> 5
RECURSIVE LexLess(_, _)
LexLess(x, y) == IF x = <<>> THEN y # <<>>
                 ELSE IF y = <<>> THEN FALSE
                 ELSE IF Rank(x[1]) # Rank(y[1]) THEN Rank(x[1]) < Rank(y[1])
                 ELSE LexLess(Tail(x), Tail(y))
MinKey(K) == CHOOSE x \in K : \A y \in K \ {x} : LexLess(x, y)
RECURSIVE SortKeys(_)
SortKeys(K) == IF K = {} THEN <<>> ELSE LET m == MinKey(K) IN <<m>> \o SortKeys(K \ {m})

PrefixEq(p, q) == Len(p) <= Len(q) /\ SubSeq(q, 1, Len(p)) = p          \* prefix or equal
ProperPrefix(p, q) == Len(p) < Len(q) /\ SubSeq(q, 1, Len(p)) = p

\* keep the first occurrence of every item that is not in `seen`
RECURSIVE Dedup(_, _)
Dedup(q, seen) == IF q = <<>> THEN <<>>
                  ELSE IF Head(q) \in seen THEN Dedup(Tail(q), seen)
                  ELSE <<Head(q)>> \o Dedup(Tail(q), seen \cup {Head(q)})

----------------------------------------------------------------------------------------------------
\* config_loader.rs: merge_values(base, overlay)
RECURSIVE MergeValues(_, _)
MergeValues(b, o) ==
  IF b.t = "o" /\ o.t = "o" THEN
       O([k \in (DOMAIN b.v) \cup (DOMAIN o.v) |->
            IF k \in DOMAIN b.v /\ k \in DOMAIN o.v THEN MergeValues(b.v[k], o.v[k])
            ELSE IF k \in DOMAIN o.v THEN o.v[k] ELSE b.v[k]])
  ELSE IF b.t = "a" /\ o.t = "a" THEN
       \* pinned: `seen` starts empty, so only duplicates inside the overlay are dropped
       A(b.v \o Dedup(o.v, IF Variant = "pinned" THEN {} ELSE Items(b.v)))
  ELSE o

\* flatten_config: flatten_object(prefix, val, config); serde_json objects iterate in key order
RECURSIVE FlattenObject(_, _, _), FlattenKeys(_, _, _, _)
FlattenObject(prefix, val, cfg) ==
  IF val.t = "o" THEN FlattenKeys(prefix, val.v, SortKeys(DOMAIN val.v), cfg)
  ELSE Put(cfg, IF prefix = <<>> THEN <<"">> ELSE prefix, val)
FlattenKeys(prefix, obj, ks, cfg) ==
  IF ks = <<>> THEN cfg
  ELSE FlattenKeys(prefix, obj, Tail(ks), FlattenObject(prefix \o Head(ks), obj[Head(ks)], cfg))
Flatten(val) == FlattenObject(<<>>, val, <<>>)

\* flatten_config (fixed): FlattenConfigObject::merge
MergeFlat(base, over) ==
  LET keep == {k \in DOMAIN base : ~\E o \in DOMAIN over : ProperPrefix(k, o) \/ ProperPrefix(o, k)}
  IN Fn([k \in keep \cup DOMAIN over |->
           IF k \notin DOMAIN over THEN base[k]
           ELSE IF k \in keep THEN MergeValues(base[k], over[k]) ELSE over[k]])

\* to_emmyrc_json, one iteration of `for (k, v) in &config.config`, pinned tree
RECURSIVE InsertPinned(_, _, _, _)
InsertPinned(cur, k, i, v) ==
  LET key == <<k[i]>> IN
  IF i = Len(k) THEN                       \* current[key] = v  (serde_json IndexMut<&str>)
       IF cur.t = "o" THEN O(Put(cur.v, key, v))
       ELSE IF cur.t = "n" THEN O(Put(<<>>, key, v))
       ELSE Crash                          \* "cannot access key .. in JSON number/array/string"
  ELSE IF cur.t # "o" THEN Crash           \* .as_object_mut().expect("always an object")
  ELSE LET child == IF key \in DOMAIN cur.v THEN cur.v[key] ELSE EmptyObj
           r == InsertPinned(child, k, i + 1, v)
       IN IF r.t = "X" THEN Crash ELSE O(Put(cur.v, key, r))

\* the same iteration after the fix: non-objects on the way down are replaced by objects
RECURSIVE InsertFixed(_, _, _, _)
InsertFixed(cur, k, i, v) ==
  IF i > Len(k) THEN v
  ELSE LET key == <<k[i]>>
           obj == IF cur.t = "o" THEN cur.v ELSE <<>>
           child == IF key \in DOMAIN obj THEN obj[key] ELSE Null
       IN O(Put(obj, key, InsertFixed(child, k, i + 1, v)))

Insert(cur, k, v) == IF Variant = "pinned" THEN InsertPinned(cur, k, 1, v) ELSE InsertFixed(cur, k, 1, v)

----------------------------------------------------------------------------------------------------
\* the case space
PathsOf(tier) == CASE tier = "s" -> {<<"a">>, <<"a", "b">>}
                   [] tier = "q" -> {<<"a">>, <<"a", "b">>, <<"a", "c">>, <<"a", "b", "c">>}
                   \* prefix-but-not-dotted-prefix siblings: a / ab at the top, a.b / a.bb below
                   [] tier = "p" -> {<<"a">>, <<"ab">>, <<"a", "b">>, <<"a", "bb">>}
                   [] tier = "p3" -> {<<"a", "b">>, <<"a", "bb">>}
                   [] OTHER -> {<<"a">>, <<"b">>, <<"a", "b">>, <<"a", "c">>, <<"a", "b", "c">>}
LeavesOf(tier) == IF tier \in {"s", "q", "p"} THEN {S(1), S(2), A(<<1>>), A(<<1, 2>>)}
                  ELSE IF tier = "p3" THEN {S(1), S(2), A(<<2>>)}
                  ELSE {S(1), S(2), A(<<1>>), A(<<1, 2>>), A(<<2>>), A(<<>>)}

\* all ways to cut a path into consecutive keys
RECURSIVE Spellings(_)
Spellings(p) == IF p = <<>> THEN {<<>>}
                ELSE UNION {{<<SubSeq(p, 1, i)>> \o r : r \in Spellings(SubSeq(p, i + 1, Len(p)))} : i \in 1..Len(p)}

Entries == {[ks |-> sp, v |-> l] : sp \in UNION {Spellings(p) : p \in PathsOf(Tier)}, l \in LeavesOf(Tier)}
\* a JSON object has every key once: no entry's key sequence is a prefix of (or equal to) another's
ValidEntries(es) == \A e1, e2 \in es : e1 = e2 \/ ~PrefixEq(e1.ks, e2.ks)
ObjFile(es) == [kind |-> "obj", es |-> es]
\* files by weight: one entry, or an odd file (the empty object, a malformed/unreadable file that the loader
\* skips, a file whose root is the scalar 1), weigh 1; two entries weigh 2
FilesOfWeight(n) ==
  IF n = 1 THEN {ObjFile({e}) : e \in Entries}
                \cup {ObjFile({}), [kind |-> "bad", es |-> {}], [kind |-> "root", es |-> {}]}
  ELSE {f \in {ObjFile({e1, e2}) : e1, e2 \in Entries} : Cardinality(f.es) = 2 /\ ValidEntries(f.es)}
Weights == 1..MaxPerFile
Cases ==
  UNION {{<<f1>> : f1 \in FilesOfWeight(w)} : w \in {x \in Weights : x <= MaxTotal}}
  \cup (IF MaxFiles < 2 THEN {} ELSE
        UNION {{<<f1, f2>> : f1 \in FilesOfWeight(w[1]), f2 \in FilesOfWeight(w[2])} :
               w \in {x \in Weights \X Weights : x[1] + x[2] <= MaxTotal}})
  \cup (IF MaxFiles < 3 THEN {} ELSE
        UNION {{<<f1, f2, f3>> : f1 \in FilesOfWeight(w[1]), f2 \in FilesOfWeight(w[2]), f3 \in FilesOfWeight(w[3])} :
               w \in {x \in Weights \X Weights \X Weights : x[1] + x[2] + x[3] <= MaxTotal}})

\* the JSON object a set of entries denotes
RECURSIVE Build(_)
Build(es) == [k \in {e.ks[1] : e \in es} |->
                LET sub == {e \in es : e.ks[1] = k} IN
                IF \E e \in sub : Len(e.ks) = 1 THEN (CHOOSE e \in sub : Len(e.ks) = 1).v
                ELSE O(Build({[ks |-> Tail(e.ks), v |-> e.v] : e \in sub}))]
\* what serde_json::from_str gives for the file; "bad" files (malformed / unreadable) are skipped
FileJson(f) == IF f.kind = "root" THEN S(1) ELSE O(Build(f.es))
Loaded(fs) == SelectSeq(fs, LAMBDA f : f.kind # "bad")

----------------------------------------------------------------------------------------------------
\* load_configs_raw up to the flat map
RECURSIVE FoldRaw(_, _), FoldFlat(_, _)
FoldRaw(acc, fs) == IF fs = <<>> THEN acc ELSE FoldRaw(MergeValues(acc, FileJson(Head(fs))), Tail(fs))
FoldFlat(acc, fs) == IF fs = <<>> THEN acc ELSE FoldFlat(MergeFlat(acc, Flatten(FileJson(Head(fs)))), Tail(fs))
ImplFlat(fs) == IF Variant = "pinned"
                THEN (IF Loaded(fs) = <<>> THEN <<>> ELSE Flatten(FoldRaw(EmptyObj, Loaded(fs))))
                ELSE FoldFlat(<<>>, Loaded(fs))

RECURSIVE RebuildIn(_, _, _)
RebuildIn(fl, order, cur) == IF order = <<>> \/ cur.t = "X" THEN cur
                             ELSE RebuildIn(fl, Tail(order), Insert(cur, Head(order), fl[Head(order)]))
\* the result when the map is iterated in sorted order
Canon(fs) == LET fl == ImplFlat(fs) IN RebuildIn(fl, SortKeys(DOMAIN fl), EmptyObj)

----------------------------------------------------------------------------------------------------
\* reference meaning (from the property statement, independent of the code's data structures)
RECURSIVE Concat(_)
Concat(ks) == IF ks = <<>> THEN <<>> ELSE Head(ks) \o Concat(Tail(ks))
PathOf(e) == Concat(e.ks)
FileAmbiguous(f) == \E e1, e2 \in f.es : e1 # e2 /\ PrefixEq(PathOf(e1), PathOf(e2))
CrossConflict(fs) == \E i, j \in DOMAIN fs : i # j /\
                       \E e1 \in fs[i].es, e2 \in fs[j].es : ProperPrefix(PathOf(e1), PathOf(e2))
Exact(fs) == /\ \A i \in DOMAIN fs : fs[i].kind # "root" /\ ~FileAmbiguous(fs[i])
             /\ ~CrossConflict(fs)
SetPaths(fs) == UNION {{PathOf(e) : e \in fs[i].es} : i \in DOMAIN fs}
ValueIn(f, p) == (CHOOSE e \in f.es : PathOf(e) = p).v
RECURSIVE RefLeaf(_, _, _)
RefLeaf(fs, p, acc) ==
  IF fs = <<>> THEN acc
  ELSE IF ~\E e \in Head(fs).es : PathOf(e) = p THEN RefLeaf(Tail(fs), p, acc)
  ELSE LET v == ValueIn(Head(fs), p) IN
       RefLeaf(Tail(fs), p, IF acc.t = "a" /\ v.t = "a" THEN A(acc.v \o Dedup(v.v, Items(acc.v))) ELSE v)
RefFlat(fs) == Fn([p \in SetPaths(fs) |-> RefLeaf(fs, p, Null)])
RECURSIVE Nest(_)
Nest(fm) == [h \in {<<p[1]>> : p \in DOMAIN fm} |->
               IF h \in DOMAIN fm THEN fm[h]
               ELSE O(Nest(Fn([q \in {Tail(p) : p \in {x \in DOMAIN fm : x[1] = h[1]}} |-> fm[h \o q]])))]
RefResult(fs) == O(Nest(RefFlat(fs)))

\* the same case with every entry spelled as one flat key
FlatSpelled(fs) == [i \in DOMAIN fs |-> [kind |-> fs[i].kind,
                                         es |-> {[ks |-> <<PathOf(e)>>, v |-> e.v] : e \in fs[i].es}]]
Respellable(fs) == \A i \in DOMAIN fs : ~FileAmbiguous(fs[i])

\* the dotted string of p is a proper prefix of the dotted string of q although p is not an ancestor of q:
\* p's last segment is a proper string prefix of the segment of q at that position ("a.b" / "a.bb", "a" / "ab")
SegPrefix(x, y) == (x = "a" /\ y = "ab") \/ (x = "b" /\ y = "bb")
StringPrefixSibling(p, q) == /\ p # <<>> /\ Len(p) <= Len(q)
                             /\ SubSeq(q, 1, Len(p) - 1) = SubSeq(p, 1, Len(p) - 1)
                             /\ SegPrefix(p[Len(p)], q[Len(p)])

----------------------------------------------------------------------------------------------------
\* the loader as a state machine.  `ref` is a ghost variable: the reference result of the case (Null where
\* the statement demands nothing exact), computed once when the files are loaded.
\* the 3-file sibling tier keeps the cases in which both siblings are set somewhere (the rest repeats tier "s")
CaseOK(fs) == Tier # "p3" \/ {<<"a", "b">>, <<"a", "bb">>} \subseteq SetPaths(fs)
Init == /\ files \in {fs \in Cases : CaseOK(fs)}
        /\ pc = "load" /\ flat = <<>> /\ todo = {} /\ out = EmptyObj /\ ref = Null

Load == /\ pc = "load"
        /\ flat' = ImplFlat(files)
        /\ todo' = DOMAIN flat'
        /\ ref' = IF Exact(files) THEN RefResult(files) ELSE Null
        /\ pc' = "rebuild"
        /\ UNCHANGED <<files, out>>

\* `for (k, v) in &config.config`: a hash map yields the remaining keys in any order, a BTreeMap the least
NextKeys == IF Variant = "pinned" THEN todo ELSE {MinKey(todo)}
Step == /\ pc = "rebuild" /\ todo # {}
        /\ \E k \in NextKeys :
             LET r == Insert(out, k, flat[k]) IN
             /\ todo' = todo \ {k}
             /\ IF r.t = "X" THEN pc' = "crashed" /\ out' = out ELSE pc' = pc /\ out' = r
        /\ UNCHANGED <<files, flat, ref>>

Finish == /\ pc = "rebuild" /\ todo = {}
          /\ pc' = "done"
          /\ UNCHANGED <<files, flat, todo, out, ref>>

Next == Load \/ Step \/ Finish \/ (pc \in {"done", "crashed"} /\ UNCHANGED vars)
Spec == Init /\ [][Next]_vars

----------------------------------------------------------------------------------------------------
\* properties
NoCrash == pc # "crashed"
\* every iteration order ends in the JSON of the sorted order (only the pinned variant has a choice)
Confluent == pc = "done" => out = Canon(files)
LaterWins == (pc = "done" /\ ref.t # "n") => out = ref
FlatIsNested == (pc = "done" /\ Respellable(files)) => out = Canon(FlatSpelled(files))

----------------------------------------------------------------------------------------------------
\* case emission: one line per case, printed at its final state (the fixed variant has exactly one)
RECURSIVE EmitV(_)
EmitV(val) == IF val.t = "o"
              THEN LET ks == SortKeys(DOMAIN val.v) IN
                   [t |-> "o", v |-> [i \in 1..Len(ks) |-> <<ks[i], EmitV(val.v[ks[i]])>>]]
              ELSE val
EmitFile(f) == [kind |-> f.kind, json |-> EmitV(FileJson(f)), n |-> Cardinality(f.es)]
Classes(fs) == [ambiguous |-> \E i \in DOMAIN fs : FileAmbiguous(fs[i]),
                cross |-> CrossConflict(fs),
                root |-> \E i \in DOMAIN fs : fs[i].kind = "root",
                mixed |-> \E i, j \in DOMAIN fs : i # j /\ \E e1 \in fs[i].es, e2 \in fs[j].es :
                             PathOf(e1) = PathOf(e2) /\ e1.ks # e2.ks,
                arrays |-> \E p \in SetPaths(fs) :
                             Cardinality({i \in DOMAIN fs : \E e \in fs[i].es : PathOf(e) = p /\ e.v.t = "a"}) > 1,
                sibling |-> \E i, j \in DOMAIN fs : i < j /\ \E e1 \in fs[i].es, e2 \in fs[j].es :
                             StringPrefixSibling(PathOf(e2), PathOf(e1))]
Emit == (EmitCases /\ pc = "done") =>
          PrintT(<<"CASE", ToJson([files |-> [i \in DOMAIN files |-> EmitFile(files[i])],
                                   model |-> EmitV(out),
                                   exact |-> ref.t # "n",
                                   ref |-> EmitV(ref),
                                   cls |-> Classes(files),
                                   tier |-> Tier])>>)
=============================================================================
