SPECIFICATION Spec
CONSTANTS
  Mode = "judge"
  MaxLen = 1
  AllCursors = FALSE
  Glue = {}
  ParamMax = 0
INVARIANTS Judge
