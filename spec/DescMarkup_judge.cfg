SPECIFICATION Spec
CONSTANTS
  Mode = "judge"
  MaxLen = 1
  AllCursors = FALSE
  Glue = {}
  ParamMax = 0
  LOpen = {}
  LFill = {}
  LSpan = {}
  LSep = {}
  LFollow = {}
INVARIANTS Judge
