SPECIFICATION Spec
CONSTANTS
  NPaths = 3
  Contents = {"ClsPlain", "FooInh", "Base", "UseHp"}
  Ops = {"unset", "remove"}
  MaxSteps = 3
  EditDist = 3
  Batch = FALSE
  EmitSel = "removal"
VIEW View
INVARIANTS ReindexIsIdeal NoLeak InheritIdeal Emit
