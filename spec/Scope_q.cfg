\* quick, exhaustive part: every program of <= 2 generated items (closers added) over two names
SPECIFICATION Spec
CONSTANTS
  NameSeq <- NamesAB
  Rich = TRUE
  MaxItems = 2
  MaxDepth = 2
  MinEmit = 1
  EmitMod = 1
  ForNumKind = "ForRange"
  LoaOrder = "reverse"
  CheckAgree = TRUE
INVARIANTS SameSites Agree Emit
