------------------------------ MODULE AnalysisDb ------------------------------
(* The analysis database of emmylua_code_analysis as "facts owned by files + merge rule" (C08, C09, C10, C11).

   A workspace is three paths /ws/a.lua, /ws/b.lua, /ws/c.lua (a fourth, /ws/d.lua, in the require-cycle
   configurations of C11) whose content is drawn from a small alphabet of
   REAL Lua snippets (Text).  Each snippet is abstracted to the facts it contributes (types it declares, with
   which description, members, globals, requires, file-level diagnostic switches).

   Two layers:
     Ideal(files, ids)      what a fresh analysis of the current files yields - written declaratively from the
                            property ("facts = union over the live files"), independent of any history;
     db + Add/Remove/Clear  the TRANSCRIBED per-index rules of db_index/*/mod.rs: LuaTypeIndex (a decl lives while
                            some file declares it), LuaPropertyIndex (ONE slot per owner, every contributing file
                            overwrites it, `remove` of any contributor drops the whole slot), LuaGlobalIndex
                            (decl vector ordered by file id), LuaMemberIndex, LuaDependencyIndex (edges owned by the
                            requiring file only), LuaModuleIndex (tree node + fuzzy entry per file), DiagnosticIndex,
                            Vfs id interning (remove_file forgets the id, update(None) keeps it).

   Actions: Update(p,c) = Remove;Add   Unset(p) / RemoveFile(p) = Remove   Reindex = Clear;AddAll in id order
            UpdateBatch = Remove all; Add all in a NONDETERMINISTIC order (C11).
   A batch runs in two phases like compilation/analyzer/mod.rs: the declaration + doc pipelines visit the files in
   the order of the batch (Add1), then the Lua pipeline visits them in BestOrder (a transcription of
   FileDependencyRelation::get_best_analysis_order: required files first, ties by file id, the files LEFT OVER in a
   require cycle in the order of the batch) and resolves the owners of `Tab.x = v` assignments (Add2: the FIRST
   analysed non-declaration member of a key is the one the owner keeps).
   TLC enumerates all histories up to MaxSteps (the history variable is hidden from the fingerprint by VIEW, so
   two histories reaching the same abstract state are explored once) and every TRANSITION of the reduced graph
   prints the history leading to it with the expected abstract state after it (model observables, model sizes,
   Ideal sizes, which components the model predicts to deviate from Ideal, the property obligations of the step).
   The harness replays every printed history into a real EmmyLuaAnalysis.

   Model-level verdicts (TLC invariants):
     ReindexIsIdeal   after Reindex (and after the initial Load) db = Ideal                       (C09 design)
     NoLeak           after every step every modelled map is no larger than in Ideal, except the
                      known dependency edge to a removed file (KF_DepEdge)                       (C10 design)
     C08_Model        back at the anchor's files => observables = Ideal's, except the single-valued
                      property slot (KF_Slot)                                                    (C08 design)
     Confluent        all analysis orders of a batch give the same db unless the workspace is
                      OrderSensitive (the same slot rule)                                        (C11 design)  *)
EXTENDS Integers, Sequences, FiniteSets, TLC, Json

CONSTANTS NPaths,      \* number of paths; registration order a, b, c
          Contents,    \* set of content names usable in this configuration
          Ops,         \* subset of {"update","unset","remove","reindex"}
          MaxSteps,
          EditDist,    \* max number of paths differing from the anchor (C08: 1; others: Len(Paths))
          Batch,       \* TRUE: the initial load is a batch in every order (C11)
          EmitSel      \* which transitions are printed: "all" | "same" (C08) | "reindex" (C09) | "removal" (C10)

VARIABLES files,       \* [letter -> content name | "-"]
          ids,         \* [letter -> Nat]  0 = not interned
          nextId,
          db,          \* the transcribed indexes
          anchor,      \* [ok, files, at]: last consistent point (Load / Reindex); ok = FALSE after a removal
          n,
          hist

vars == <<files, ids, nextId, db, anchor, n, hist>>
Paths == SubSeq(<<"a", "b", "c", "d">>, 1, NPaths)
PathSet == {Paths[i] : i \in 1..Len(Paths)}
None == "-"

\* ------------------------------------------------------------------------------------------------
\* the content alphabet: real Lua text and the facts it contributes
\* a member of a require cycle: "Cy<kind>_<target>" = <contribution of the kind>, then require("<target>")
CyKinds == {"MemInt", "MemStr", "GInt", "GStr", "FldInt", "FldStr"}
CyTargets == {"a", "b", "c"}
CyName(k, r) == "Cy" \o k \o "_" \o r
CyAll == {CyName(k, r) : k \in CyKinds, r \in CyTargets}
IsCy(c) == c \in CyAll
CyKind(c) == CHOOSE k \in CyKinds : \E r \in CyTargets : c = CyName(k, r)
CyTarget(c) == CHOOSE r \in CyTargets : \E k \in CyKinds : c = CyName(k, r)
CyBody(k) == CASE k = "MemInt" -> "Tab.x = 1\n" [] k = "MemStr" -> "Tab.x = \"text\"\n"
               [] k = "GInt" -> "GG = 1\n" [] k = "GStr" -> "GG = \"s\"\n"
               [] k = "FldInt" -> "---@class (partial) Foo\n---@field bar integer\n"
               [] k = "FldStr" -> "---@class (partial) Foo\n---@field bar string\n"

Text(c) ==
  CASE c = "ClsDoc"   -> "---@class (partial) Foo Hello doc\n"
    [] c = "ClsDoc2"  -> "---@class (partial) Foo Other doc\n"
    [] c = "ClsPlain" -> "---@class (partial) Foo\n"
    [] c = "ClsField" -> "---@class (partial) Foo\n---@field bar integer\n"
    [] c = "GInt"     -> "GG = 1\n"
    [] c = "GStr"     -> "GG = \"s\"\n"
    [] c = "ReqB"     -> "local m = require(\"b\")\nreturn m\n"
    [] c = "Mod"      -> "local M = {}\nM.val = 1\nreturn M\n"
    [] c = "Alias"    -> "---@alias Id integer\n"
    [] c = "Enum"     -> "---@enum Color\nlocal Color = { Red = 1, Green = 2 }\nreturn Color\n"
    [] c = "DiagOff"  -> "---@diagnostic disable: undefined-global\nlocal y = zz\n"
    [] c = "Undef"    -> "local y = zz\n"
    [] c = "UseFoo"   -> "---@type Foo\nlocal f\nlocal v = f.bar\nlocal g = GG\n"
    [] c = "ClsSub"   -> "---@class Bar: Foo\n"
    [] c = "ReqA"     -> "local m = require(\"a\")\nreturn m\n"
    \* generics and operators (C08 after seeded review)
    [] c = "GenBox"   -> "---@class (partial) Box<T>\n---@field value T\n"
    [] c = "BoxExt"   -> "---@class (partial) Box\n---@field label string\n"
    [] c = "GenAlias" -> "---@alias Opt<T> T?\n"
    [] c = "UseBox"   -> "---@type Box<string>\nlocal b\nlocal v = b.value\nlocal l = b.label\n---@type Opt<integer>\nlocal o\nlocal o2 = o\n"
    [] c = "ClsOp"    -> "---@class (partial) Foo\n---@operator add(Foo): integer\n---@overload fun(x: integer): Foo\n"
    [] c = "ClsOp2"   -> "---@class (partial) Foo\n---@operator add(Foo): string\n"
    [] c = "UseOp"    -> "---@type Foo\nlocal f\nlocal s = f + f\nlocal k = f(1)\n"
    \* members of require cycles with (possibly conflicting) contributions (C11 after seeded review)
    \* a partial class whose INHERITANCE edge lives in only one of its declaring files, the base class with a
    \* field, and a user of the inherited field (C10 after seeded review)
    [] c = "Base"     -> "---@class Base\n---@field hp integer\n"
    [] c = "FooInh"   -> "---@class (partial) Foo: Base\n"
    [] c = "UseHp"    -> "---@type Foo\nlocal f\nlocal h = f.hp\n"
    [] c = "ClsTab"   -> "---@class Tab\nTab = {}\n"
    [] c = "UseCy"    -> "local t = Tab.x\nlocal g = GG\n---@type Foo\nlocal f\nlocal v = f.bar\n"
    \* second seeded round.  C08: the SAME member of a global instance defined in two files; the class of the
    \* instance and the (inferred) binding of the global live in a third file
    [] c = "ObjDef"   -> "---@class Obj\n\n---@return Obj\nlocal function new_obj() end\n\nobj = new_obj()\n"
    [] c = "ObjBar1"  -> "function obj.bar() return 1 end\n"
    [] c = "ObjBar2"  -> "function obj.bar() return \"x\" end\n"
    [] c = "UseObj"   -> "local f = obj.bar\nlocal r = obj.bar()\n"
    \* C10: a `---@meta` file and an ordinary file define the same member of the class table
    [] c = "MetaX"    -> "---@meta\nTab.x = 1\n"
    [] c = "TabX"     -> "Tab.x = \"a\"\n"
    [] c = "UseTabX"  -> "local v = Tab.x\n"
    \* C11: library roots; a library that requires the INFERRED export of another library and publishes it
    [] c = "ExpX"     -> "return { x = 1 }\n"
    [] c = "GReqA"    -> "local m = require(\"a\")\nLV = m.x\n"
    [] c = "GReqB"    -> "local m = require(\"b\")\nLV = m.x\n"
    [] c = "UseLV"    -> "local v = LV\nlocal w = v + 1\n"
    [] IsCy(c)        -> CyBody(CyKind(c)) \o "\nlocal other = require(\"" \o CyTarget(c) \o "\")\nreturn {}\n"
    [] OTHER          -> ""
AllContents == {"ClsDoc", "ClsDoc2", "ClsPlain", "ClsField", "GInt", "GStr", "ReqB", "Mod", "Alias", "Enum",
                "DiagOff", "Undef", "UseFoo", "ClsSub", "ReqA",
                "GenBox", "BoxExt", "GenAlias", "UseBox", "ClsOp", "ClsOp2", "UseOp", "ClsTab", "UseCy",
                "Base", "FooInh", "UseHp",
                "ObjDef", "ObjBar1", "ObjBar2", "UseObj", "MetaX", "TabX", "UseTabX",
                "ExpX", "GReqA", "GReqB", "UseLV"} \cup CyAll
TypeNames == {"Foo", "Id", "Color", "Bar", "Box", "Opt", "Tab", "Base", "Obj"}
GlobalNames == {"GG", "Tab", "obj", "LV"}

CyFld(c) == IsCy(c) /\ CyKind(c) \in {"FldInt", "FldStr"}
CyGlob(c) == IsCy(c) /\ CyKind(c) \in {"GInt", "GStr"}
CyMem(c) == IsCy(c) /\ CyKind(c) \in {"MemInt", "MemStr"}
Decl(c)  == CASE c \in {"ClsDoc", "ClsDoc2", "ClsPlain", "ClsField", "ClsOp", "ClsOp2", "FooInh"} -> {"Foo"}
              [] c = "Base" -> {"Base"}
              [] c = "Alias" -> {"Id"} [] c = "Enum" -> {"Color"} [] c = "ClsSub" -> {"Bar"}
              [] c \in {"GenBox", "BoxExt"} -> {"Box"} [] c = "GenAlias" -> {"Opt"} [] c = "ClsTab" -> {"Tab"}
              [] c = "ObjDef" -> {"Obj"}
              [] CyFld(c) -> {"Foo"} [] OTHER -> {}
Sup(c)   == CASE c = "ClsSub" -> {<<"Bar", "Foo">>} [] c = "FooInh" -> {<<"Foo", "Base">>} [] OTHER -> {}
Desc(c)  == CASE c = "ClsDoc" -> "Hello doc" [] c = "ClsDoc2" -> "Other doc" [] OTHER -> ""
Mem(c)   == CASE c = "ClsField" -> {<<"Foo", "bar">>}
              [] c = "Enum" -> {<<"Color", "Red">>, <<"Color", "Green">>}
              [] c = "GenBox" -> {<<"Box", "value">>} [] c = "BoxExt" -> {<<"Box", "label">>}
              [] c = "Base" -> {<<"Base", "hp">>}
              [] c = "MetaX" -> {<<"Tab", "x">>}      \* MetaDefine is a declaration: always listed, ordered by (file, position)
              [] CyFld(c) -> {<<"Foo", "bar">>} [] OTHER -> {}
\* `Tab.x = v`: a non-declaration member; its owner is resolved by the Lua pipeline (phase 2)
LMem(c)  == IF CyMem(c) \/ c = "TabX" THEN {<<"Tab", "x">>} ELSE {}
\* `function obj.bar()`: a member of the global path `obj` (<<global, key>>); GBind: the file binds the INFERRED type
\* of the global's declaration to a class (<<global, type>>), which migrates the members of the path to the class
GMem(c)  == IF c \in {"ObjBar1", "ObjBar2"} THEN {<<"obj", "bar">>} ELSE {}
GBind(c) == IF c = "ObjDef" THEN {<<"obj", "Obj">>} ELSE {}
\* `LV = require("r").x`: the global's inferred type is the literal 1 when the module r has been analysed (its
\* export `{ x = 1 }` inferred) before this file's Lua pipeline runs, else the unresolved require is forced to any
GVal(c)  == CASE c = "GReqA" -> {<<"LV", "a">>} [] c = "GReqB" -> {<<"LV", "b">>} [] OTHER -> {}
Exports(c) == c = "ExpX"
NMem(c)  == CASE c \in {"ClsField", "Mod", "GenBox", "BoxExt", "Base", "ObjBar1", "ObjBar2", "MetaX", "TabX", "ExpX"} -> 1 [] c = "Enum" -> 2    \* entries of `members`
              [] CyFld(c) \/ CyMem(c) -> 1 [] OTHER -> 0
Glob(c)  == CASE c \in {"GInt", "GStr"} \/ CyGlob(c) -> {"GG"} [] c = "ClsTab" -> {"Tab"}
              [] c = "ObjDef" -> {"obj"} [] c \in {"GReqA", "GReqB"} -> {"LV"} [] OTHER -> {}
Req(c)   == CASE c \in {"ReqB", "GReqB"} -> {"b"} [] c \in {"ReqA", "GReqA"} -> {"a"} [] IsCy(c) -> {CyTarget(c)} [] OTHER -> {}
DOff(c)  == c = "DiagOff"
\* generic header: the parameter names a declaration of the type in this file carries
Gen(c)   == CASE c = "GenBox" -> {<<"Box", <<"T">>>>} [] c = "GenAlias" -> {<<"Opt", <<"T">>>>} [] OTHER -> {}
\* operators (`---@operator`, `---@overload` on a class): <<type, meta method, result>>
Opr(c)   == CASE c = "ClsOp" -> {<<"Foo", "add", "integer">>, <<"Foo", "call", "Foo">>}
              [] c = "ClsOp2" -> {<<"Foo", "add", "string">>} [] OTHER -> {}
MetaMethods == {"add", "call"}
Uses(c)  == CASE c = "UseFoo" -> {"Foo", "GG"} [] c = "ReqB" -> {"mod:b"} [] c = "ReqA" -> {"mod:a"} [] c = "ClsSub" -> {"Foo"}
              [] c = "UseBox" -> {"Box", "Opt"} [] c = "UseOp" -> {"Foo"} [] c = "UseCy" -> {"Tab", "GG", "Foo"}
              [] c = "FooInh" -> {"Base"} [] c = "UseHp" -> {"Foo", "Base"}
              [] c \in {"ObjBar1", "ObjBar2", "UseObj"} -> {"obj", "Obj"} [] c \in {"MetaX", "TabX", "UseTabX"} -> {"Tab"}
              [] c = "GReqA" -> {"mod:a"} [] c = "GReqB" -> {"mod:b"} [] c = "UseLV" -> {"LV"}
              [] IsCy(c) -> {"mod:" \o CyTarget(c)} \cup (IF CyMem(c) THEN {"Tab"} ELSE {}) [] OTHER -> {}
Partial(t) == t \in {"Foo", "Box"}   \* Id, Color, Opt, Tab are not partial: declaring them twice is already a diagnostic

\* ------------------------------------------------------------------------------------------------
Live(fs) == {p \in PathSet : fs[p] # None}
IdOf(fs, is) == {is[p] : p \in Live(fs)}
PathOfId(is, i) == CHOOSE p \in PathSet : is[p] = i
Max(S) == CHOOSE x \in S : \A y \in S : y <= x
Min(S) == CHOOSE x \in S : \A y \in S : x <= y
SetToSeq(S) == LET RECURSIVE F(_) F(T) == IF T = {} THEN <<>> ELSE LET m == CHOOSE x \in T : \A y \in T : x <= y
                                                                   IN <<m>> \o F(T \ {m}) IN F(S)

EmptyDb == [typeLocs |-> [t \in TypeNames |-> {}],
            slot |-> [t \in TypeNames |-> "none"],
            slotOwners |-> {},
            supers |-> {},              \* <<type, super, id>>: LuaTypeIndex.supers, a vector of InFiled per type
            members |-> {},
            nmem |-> {},                \* <<id, count>> rows of LuaMemberIndex.members per file
            globals |-> [g \in GlobalNames |-> <<>>],
            deps |-> {},
            modules |-> {},
            doff |-> {},
            gen |-> {},                 \* <<type, params, id>>: generic header registered by file id
            ops |-> {},                 \* <<type, meta method, result, id>>
            lmem |-> {},                \* <<type, key, id>>: the non-declaration member the owner keeps for the key
            gmem |-> {},                \* <<global, key, id>>: members of the owner GlobalPath(global)
            bind |-> {},                \* <<global, type, id>>: file id binds the inferred type of the global to the class
            migr |-> {},                \* <<type, key, id>>: members of a global path listed under Type(type) as well
            exp |-> {},                 \* ids of the modules whose inferred export ({ x = 1 }) is known
            gval |-> {}]                \* <<global, id, type>>: inferred type of the global's declaration in file id

\* module name -> the live, indexed file with that name (flat workspace: module name = path letter)
ModTarget(d, is, r) == {i \in d.modules : \E p \in PathSet : is[p] = i /\ p = r}

SortedInsert(s, i) == SetToSeq({s[k] : k \in 1..Len(s)} \cup {i})

\* ---- transcribed rules ----
\* phase 1: declaration + doc pipelines
Add1(d, is, i, c) ==
  [d EXCEPT
     !.modules = @ \cup {i},
     !.typeLocs = [t \in TypeNames |-> IF t \in Decl(c) THEN @[t] \cup {i} ELSE @[t]],
     \* analyze_class/alias/enum -> add_description(file, TypeDecl(t), text): get_or_create + ASSIGN
     !.slot = [t \in TypeNames |-> IF t \in Decl(c) THEN Desc(c) ELSE @[t]],
     !.slotOwners = @ \cup {<<i, t>> : t \in Decl(c)},
     !.supers = @ \cup {<<x[1], x[2], i>> : x \in Sup(c)},
     !.members = @ \cup {<<m[1], m[2], i>> : m \in Mem(c)},
     !.nmem = IF NMem(c) > 0 THEN @ \cup {<<i, NMem(c)>>} ELSE @,
     !.globals = [g \in GlobalNames |-> IF g \in Glob(c) THEN SortedInsert(@[g], i) ELSE @[g]],
     \* the dependency edge is created when the requiring file is analysed and the module resolves then
     !.deps = @ \cup {<<i, j>> : j \in UNION {ModTarget([d EXCEPT !.modules = @ \cup {i}], is, r) : r \in Req(c)}},
     !.doff = IF DOff(c) THEN @ \cup {i} ELSE @,
     \* preprocess_type_generic_headers -> add_generic_params: one entry per declaring file that carries a header
     !.gen = @ \cup {<<g[1], g[2], i>> : g \in Gen(c)},
     !.ops = @ \cup {<<o[1], o[2], o[3], i>> : o \in Opr(c)},
     \* the declaration pipeline lists `function obj.bar()` under the owner GlobalPath(obj)
     !.gmem = @ \cup {<<m[1], m[2], i>> : m \in GMem(c)}]

\* phase 2: Lua pipeline. LuaMemberIndex::add_member_to_owner for a non-declaration member: kept only when the
\* owner has no member of that key yet (first come, first kept); the owner must be a declared type
\* bind_type of the global's declaration -> migrate_global_members_when_type_resolve: every member that
\* GlobalPath(g) lists at that moment (the declaration pipeline has put the members of ALL files of the batch there)
\* is ALSO added to Type(t) (add_member_to_owner: an id is listed once per owner and key, however often it is
\* migrated).  The Lua pipeline of the file that DEFINES the member does not add it to the class when the global is
\* already bound (lua/stats.rs, prefix type Ref: `set_member_owner` only), so a member that is re-analysed alone is
\* listed under the class again only when the binding file is analysed again (KF_Migr).
\* Entries leave the lists only with the file that defines the member (LuaMemberIndex::remove).
Add2(d, is, i, c) ==
  [d EXCEPT !.lmem = @ \cup {<<m[1], m[2], i>> : m \in {x \in LMem(c) : d.typeLocs[x[1]] # {}
                                                                     /\ ~\E y \in d.lmem : y[1] = x[1] /\ y[2] = x[2]}},
            !.bind = @ \cup {<<b[1], b[2], i>> : b \in GBind(c)},
            !.exp = IF Exports(c) THEN @ \cup {i} ELSE @,
            !.gval = @ \cup {<<v[1], i, IF ModTarget(d, is, v[2]) \cap d.exp # {} THEN "1" ELSE "any">> : v \in GVal(c)},
            !.migr = @ \cup UNION {{<<b[2], m[2], m[3]>> : m \in {x \in d.gmem : x[1] = b[1]}} : b \in GBind(c)}]

Add(d, is, i, c) == Add2(Add1(d, is, i, c), is, i, c)

Remove(d, i) ==
  [d EXCEPT
     !.modules = @ \ {i},
     !.typeLocs = [t \in TypeNames |-> @[t] \ {i}],
     \* LuaPropertyIndex::remove: every owner this file contributed to loses its WHOLE property
     !.slot = [t \in TypeNames |-> IF <<i, t>> \in d.slotOwners THEN "none" ELSE @[t]],
     !.slotOwners = {o \in @ : o[1] # i},
     !.supers = {x \in @ : x[3] # i},
     !.members = {m \in @ : m[3] # i},
     !.nmem = {m \in @ : m[1] # i},
     !.globals = [g \in GlobalNames |-> SelectSeq(@[g], LAMBDA x : x # i)],
     \* LuaDependencyIndex::remove drops only the file's OWN edge set; edges pointing to it stay
     !.deps = {e \in @ : e[1] # i},
     !.doff = @ \ {i},
     !.gen = {g \in @ : g[3] # i},
     !.ops = {o \in @ : o[4] # i},
     !.lmem = {m \in @ : m[3] # i},
     !.gmem = {m \in @ : m[3] # i},
     !.bind = {b \in @ : b[3] # i},
     !.migr = {m \in @ : m[3] # i},
     !.exp = @ \ {i},
     !.gval = {v \in @ : v[2] # i}]

\* FileDependencyRelation::get_best_analysis_order(input) over the edges `deps` (<<i, j>>: i requires j):
\* Kahn's algorithm; roots and every batch of newly released files sorted by file id (no meta files here); what
\* is never released (members of a require cycle and whatever requires them) follows IN THE ORDER OF THE INPUT
RECURSIVE Kahn(_, _, _, _)
Kahn(queue, indeg, res, deps) ==
  IF queue = <<>> THEN [res |-> res, indeg |-> indeg]
  ELSE LET x == Head(queue)
           nb == {y \in DOMAIN indeg : <<y, x>> \in deps}
           indeg2 == [y \in DOMAIN indeg |-> IF y \in nb THEN indeg[y] - 1 ELSE indeg[y]]
           newz == {y \in nb : indeg2[y] = 0}
       IN Kahn(Tail(queue) \o SetToSeq(newz), indeg2, Append(res, x), deps)
KahnOf(deps, S) == LET indeg0 == [y \in S |-> Cardinality({x \in S : <<y, x>> \in deps})]
                   IN Kahn(SetToSeq({y \in S : indeg0[y] = 0}), indeg0, <<>>, deps)
BestOrder(deps, input) ==
  IF Len(input) < 2 THEN input
  ELSE LET k == KahnOf(deps, {input[j] : j \in 1..Len(input)})
       IN k.res \o SelectSeq(input, LAMBDA y : k.indeg[y] > 0)

RECURSIVE AddSeq1(_, _, _, _)
AddSeq1(d, fs, is, order) ==   \* order: sequence of ids; all modules are registered before analysis (module_analyze)
  IF order = <<>> THEN d
  ELSE AddSeq1(Add1(d, is, Head(order), fs[PathOfId(is, Head(order))]), fs, is, Tail(order))
RECURSIVE AddSeq2(_, _, _, _)
AddSeq2(d, fs, is, order) ==
  IF order = <<>> THEN d
  ELSE AddSeq2(Add2(d, is, Head(order), fs[PathOfId(is, Head(order))]), fs, is, Tail(order))
\* a batch: phase 1 in the order of the batch, phase 2 in BestOrder of the batch
AddSeq(d, fs, is, order) ==
  LET d1 == AddSeq1(d, fs, is, order) IN AddSeq2(d1, fs, is, BestOrder(d1.deps, order))

RegisterAll(d, idset) == [d EXCEPT !.modules = @ \cup idset]

\* ---- workspace roots (C11, second seeded round) ----
\* A workspace over the library contents has THREE roots: a.lua lives in the library root /liba, b.lua in the
\* library root /libb (added in this order, so WorkspaceId(liba) < WorkspaceId(libb)), everything else in the main
\* root /ws.  module_analyze analyses a batch root by root: std, then the libraries IN THE ORDER OF THEIR WORKSPACE
\* IDS, then main; inside a root as described above.  The module name of a file is its path letter in every root.
LibContents == {"ExpX", "GReqA", "GReqB", "UseLV"}
LibLayout(fs) == \E p \in PathSet : fs[p] \in LibContents
DirOf(fs, p) == IF LibLayout(fs) THEN (CASE p = "a" -> "/liba" [] p = "b" -> "/libb" [] OTHER -> "/ws") ELSE "/ws"
LibDirs(fs) == IF LibLayout(fs) THEN <<"/liba", "/libb">> ELSE <<>>
RootOrder(fs) == LibDirs(fs) \o <<"/ws">>
RootRank(fs, p) == CHOOSE k \in 1..Len(RootOrder(fs)) : RootOrder(fs)[k] = DirOf(fs, p)
RECURSIVE AddRoots(_, _, _, _, _)
AddRoots(d, fs, is, order, roots) ==
  IF roots = <<>> THEN d
  ELSE AddRoots(AddSeq(d, fs, is, SelectSeq(order, LAMBDA i : DirOf(fs, PathOfId(is, i)) = Head(roots))),
                fs, is, order, Tail(roots))
AddBatch(d, fs, is, order) == AddRoots(d, fs, is, order, RootOrder(fs))

\* ids handed out by registering the live files in path order
RegIds(fs) == LET RECURSIVE F(_, _) F(k, next) ==
                    IF k > Len(Paths) THEN [p \in {} |-> 0]
                    ELSE IF fs[Paths[k]] = None THEN (Paths[k] :> 0) @@ F(k + 1, next)
                         ELSE (Paths[k] :> next) @@ F(k + 1, next + 1)
              IN F(1, 1)

\* ---- the declarative layer ----
Ideal(fs, is) ==
  LET live == Live(fs)
      declaring(t) == {p \in live : t \in Decl(fs[p])}
      lastDecl(t) == CHOOSE p \in declaring(t) : \A q \in declaring(t) : is[q] <= is[p]
  IN [typeLocs |-> [t \in TypeNames |-> {is[p] : p \in declaring(t)}],
      slot |-> [t \in TypeNames |-> IF declaring(t) = {} THEN "none" ELSE Desc(fs[lastDecl(t)])],
      slotOwners |-> UNION {{<<is[p], t>> : t \in Decl(fs[p])} : p \in live},
      supers |-> UNION {{<<x[1], x[2], is[p]>> : x \in Sup(fs[p])} : p \in live},
      members |-> UNION {{<<m[1], m[2], is[p]>> : m \in Mem(fs[p])} : p \in live},
      nmem |-> {<<is[p], NMem(fs[p])>> : p \in {q \in live : NMem(fs[q]) > 0}},
      globals |-> [g \in GlobalNames |-> SetToSeq({is[p] : p \in {q \in live : g \in Glob(fs[q])}})],
      deps |-> UNION {{<<is[p], is[q]>> : q \in {r \in live : r \in Req(fs[p])}} : p \in live},
      modules |-> {is[p] : p \in live},
      doff |-> {is[p] : p \in {q \in live : DOff(fs[q])}},
      gen |-> UNION {{<<g[1], g[2], is[p]>> : g \in Gen(fs[p])} : p \in live},
      ops |-> UNION {{<<o[1], o[2], o[3], is[p]>> : o \in Opr(fs[p])} : p \in live},
      \* the first contributor in the dependency order of the file-id sorted batch keeps the key
      lmem |-> LET ideps == UNION {{<<is[p], is[q]>> : q \in {r \in live : r \in Req(fs[p])}} : p \in live}
                   ord == BestOrder(ideps, SetToSeq({is[p] : p \in live}))
                   contrib(m) == {k \in 1..Len(ord) : m \in LMem(fs[PathOfId(is, ord[k])])}
                   all == UNION {LMem(fs[p]) : p \in live}
               IN {<<m[1], m[2], ord[Min(contrib(m))]>> : m \in {x \in all : declaring(x[1]) # {}}},
      gmem |-> UNION {{<<m[1], m[2], is[p]>> : m \in GMem(fs[p])} : p \in live},
      bind |-> UNION {{<<b[1], b[2], is[p]>> : b \in GBind(fs[p])} : p \in live},
      \* the members of a global path are members of the class its declaration is bound to, once each
      migr |-> UNION {UNION {{<<b[2], m[2], is[q]>> : m \in {x \in GMem(fs[q]) : x[1] = b[1]}} : q \in live}
                      : b \in UNION {GBind(fs[p]) : p \in live}},
      exp |-> {is[p] : p \in {q \in live : Exports(fs[q])}},
      \* a fresh analysis goes root by root (RootOrder): the export of a module in an EARLIER root is known
      gval |-> UNION {{<<v[1], is[p], IF v[2] \in live /\ Exports(fs[v[2]]) /\ RootRank(fs, v[2]) < RootRank(fs, p)
                                       THEN "1" ELSE "any">> : v \in GVal(fs[p])} : p \in live}]

\* a workspace whose fresh result depends on the analysis order (C11 interaction): a type whose declaring files
\* disagree on the description
SlotSensitive(fs) == \E t \in TypeNames : \E p, q \in Live(fs) :
                         t \in Decl(fs[p]) /\ t \in Decl(fs[q]) /\ Desc(fs[p]) # Desc(fs[q])
\* ... or a key of a declared type assigned by two files that the dependency order never releases (members of a
\* require cycle / files requiring them) and by no file that is released: the order of the batch decides who is first
Stuck(fs) == LET is == RegIds(fs) live == Live(fs)
                 ideps == UNION {{<<is[p], is[q]>> : q \in {r \in live : r \in Req(fs[p])}} : p \in live}
                 k == KahnOf(ideps, {is[p] : p \in live})
             IN {p \in live : k.indeg[is[p]] > 0}
CycleSensitive(fs) == \E m \in UNION {LMem(fs[p]) : p \in Live(fs)} :
                         /\ \E p \in Live(fs) : m[1] \in Decl(fs[p])
                         /\ \A p \in Live(fs) \ Stuck(fs) : m \notin LMem(fs[p])
                         /\ Cardinality({p \in Stuck(fs) : m \in LMem(fs[p])}) >= 2
OrderSensitive(fs) == SlotSensitive(fs) \/ CycleSensitive(fs)

Components == {"typeLocs", "slot", "slotOwners", "supers", "members", "nmem", "globals", "deps", "modules", "doff",
               "gen", "ops", "lmem", "gmem", "bind", "migr", "exp", "gval"}
Get(d, k) == CASE k = "typeLocs" -> d.typeLocs [] k = "slot" -> d.slot [] k = "slotOwners" -> d.slotOwners
               [] k = "supers" -> d.supers [] k = "members" -> d.members [] k = "nmem" -> d.nmem [] k = "globals" -> d.globals
               [] k = "deps" -> d.deps [] k = "modules" -> d.modules [] k = "doff" -> d.doff
               [] k = "gen" -> d.gen [] k = "ops" -> d.ops [] k = "lmem" -> d.lmem
               [] k = "gmem" -> d.gmem [] k = "bind" -> d.bind [] k = "migr" -> d.migr
               [] k = "exp" -> d.exp [] k = "gval" -> d.gval
Dev(d, fs, is) == {k \in Components : Get(d, k) # Get(Ideal(fs, is), k)}

\* ---- sizes of the real maps that the model predicts exactly (names = DbIndex::verif_sizes) ----
Sum(S, F(_)) == LET RECURSIVE G(_) G(T) == IF T = {} THEN 0 ELSE LET x == CHOOSE y \in T : TRUE IN F(x) + G(T \ {x})
                IN G(S)
Sizes(d, fs, is) ==
  LET nlive == Cardinality(Live(fs))
      declared == {t \in TypeNames : d.typeLocs[t] # {}}
      typeFiles == UNION {d.typeLocs[t] : t \in TypeNames}
      LenLocs(t) == Cardinality(d.typeLocs[t])
      LenG(g) == Len(d.globals[g])
      NM(m) == m[2]
  IN [vfs_file_id_map |-> Cardinality({p \in PathSet : is[p] # 0}),
      vfs_live |-> nlive,
      vfs_tree_map |-> nlive,
      decl_trees |-> nlive,
      flow_trees |-> nlive,
      file_references |-> nlive,
      module_file_module_map |-> Cardinality(d.modules),
      module_nodes |-> 1 + Cardinality(d.modules),
      module_fuzzy |-> Cardinality(d.modules),
      module_fuzzy_items |-> Cardinality(d.modules),
      type_file_types |-> Cardinality(typeFiles),
      type_full_name |-> Cardinality(declared),
      type_locations |-> Sum(TypeNames, LenLocs),
      type_global_names |-> Cardinality(declared),
      type_supers |-> Cardinality({x[1] : x \in d.supers}),
      type_supers_items |-> Cardinality(d.supers),
      global_decl |-> Cardinality({g \in GlobalNames : d.globals[g] # <<>>}),
      global_decl_items |-> Sum(GlobalNames, LenG),
      property_properties |-> Cardinality({t \in TypeNames : d.slot[t] # "none"}),
      property_in_filed_owner |-> Cardinality({o[1] : o \in d.slotOwners}),
      property_in_filed_owner_items |-> Cardinality(d.slotOwners),
      member_members |-> Sum(d.nmem, NM),
      dependency_files |-> Cardinality({e[1] : e \in d.deps}),
      dependency_items |-> Cardinality(d.deps),
      diag_disabled |-> Cardinality(d.doff),
      type_generic_params |-> Cardinality({g[1] : g \in d.gen}),
      operator_operators |-> Cardinality(d.ops),
      operator_owners |-> Cardinality({o[1] : o \in d.ops}),
      operator_files |-> Cardinality({o[4] : o \in d.ops})]

\* ---- observables the harness compares with the real queries ----
\* t and everything reachable from it over the super edges of the index (C10 after seeded review)
RECURSIVE AncClose(_, _)
AncClose(d, S) == LET T == S \cup {x[2] : x \in {y \in d.supers : y[1] \in S}} IN IF T = S THEN S ELSE AncClose(d, T)
Ancestors(d, t) == IF d.typeLocs[t] = {} THEN {} ELSE AncClose(d, {t})
Obs(d, fs, is) ==
  [desc |-> [t \in TypeNames |-> IF d.typeLocs[t] = {} THEN "<no-type>"
                                  ELSE IF d.slot[t] = "none" THEN "" ELSE d.slot[t]],
   typelocs |-> [t \in TypeNames |-> {PathOfId(is, i) : i \in d.typeLocs[t]}],
   globals |-> [g \in GlobalNames |-> [k \in 1..Len(d.globals[g]) |-> PathOfId(is, d.globals[g][k])]],
   \* one entry per member id the owner Type(t) lists (the harness compares with multiplicity)
   members |-> [t \in TypeNames |-> IF d.typeLocs[t] = {} THEN {} ELSE
                  {<<m[2], PathOfId(is, m[3])>> : m \in {x \in d.members \cup d.lmem \cup d.migr : x[1] = t}}],
   \* ... and per member id the owner GlobalPath(g) lists, for the globals that have a declaration
   gmembers |-> [g \in {"obj"} |-> IF d.globals[g] = <<>> THEN {} ELSE
                  {<<m[2], PathOfId(is, m[3])>> : m \in {x \in d.gmem : x[1] = g}}],
   \* inferred type of every declaration of the global: <<path, type>>
   gtype |-> [g \in {"LV"} |-> {<<PathOfId(is, v[2]), v[3]>> : v \in {x \in d.gval : x[1] = g}}],
   \* generic parameters of the type: the header of the declaring file with the lowest id
   gen |-> [t \in TypeNames |-> LET gs == {g \in d.gen : g[1] = t} IN
                                 IF gs = {} THEN <<>> ELSE (CHOOSE g \in gs : \A h \in gs : g[3] <= h[3])[2]],
   \* operators per type and meta method in the order of the index (by file id): <<result, path>>
   ops |-> [t \in TypeNames |-> [mm \in MetaMethods |->
                LET os == {o \in d.ops : o[1] = t /\ o[2] = mm}
                    idseq == SetToSeq({o[4] : o \in os})
                IN [k \in 1..Len(idseq) |-> <<(CHOOSE o \in os : o[4] = idseq[k])[3], PathOfId(is, idseq[k])>>]]],
   supers |-> [t \in TypeNames |-> {x[2] : x \in {y \in d.supers : y[1] = t}}],
   \* member lookup on an instance of t (find_members): own members and those of every declared ancestor
   inherit |-> [t \in TypeNames |-> {<<m[2], PathOfId(is, m[3])>> :
                                       m \in {x \in d.members \cup d.lmem \cup d.migr : x[1] \in Ancestors(d, t)}}],
   modules |-> [r \in PathSet |-> LET tg == ModTarget(d, is, r) IN
                                   IF tg = {} THEN "<none>" ELSE PathOfId(is, CHOOSE i \in tg : TRUE)]]

\* what a removed file provided / whether a remaining file shares or uses it (then the remaining files' own
\* cached facts may legitimately differ from a fresh analysis and only the modelled sizes are judged)
Names(c, p) == Decl(c) \cup Glob(c) \cup {"mod:" \o p}
Independent(fs, p, c) == \A q \in Live(fs) : (Decl(fs[q]) \cup Glob(fs[q]) \cup Uses(fs[q])) \cap Names(c, p) = {}

\* ------------------------------------------------------------------------------------------------
\* hist holds compact steps [op, p, c, order]; for unset/remove c is the content that was removed
H(op, p, c) == [op |-> op, p |-> p, c |-> c, order |-> <<>>, init |-> <<>>]

WellFormed(fs) ==
  \* a fourth file is reserved for the class the members of a require cycle contribute to
  /\ "d" \in PathSet => fs["d"] = "ClsTab" /\ \A p \in PathSet \ {"d"} : fs[p] # "ClsTab"
  \* a member of a require cycle requires another one (so every chain of them ends in a cycle)
  /\ \A p \in PathSet : IsCy(fs[p]) => /\ CyTarget(fs[p]) # p /\ CyTarget(fs[p]) \in PathSet
                                        /\ IsCy(fs[CyTarget(fs[p])])
  /\ \A t \in TypeNames : ~Partial(t) => Cardinality({p \in Live(fs) : t \in Decl(fs[p])}) <= 1
  /\ "b" \in PathSet => fs["b"] # "ReqB"             \* no self-require
  /\ fs["a"] # "ReqA" /\ fs["a"] # "GReqA"
  /\ "b" \in PathSet => fs["b"] # "GReqB"

InitFiles == {fs \in [PathSet -> Contents \cup {None}] : WellFormed(fs) /\ Live(fs) # {}}

Perms(S) == LET RECURSIVE P(_) P(T) == IF T = {} THEN {<<>>} ELSE UNION {{<<x>> \o s : s \in P(T \ {x})} : x \in T}
            IN P(S)

Init ==
  \E fs \in InitFiles :
    LET is == RegIds(fs)
        idset == IdOf(fs, is) IN
    \E order \in (IF Batch THEN Perms(idset) ELSE {SetToSeq(idset)}) :
      /\ files = fs /\ ids = is /\ nextId = Cardinality(idset) + 1
      /\ db = AddBatch(RegisterAll(EmptyDb, idset), fs, is, order)
      /\ anchor = [ok |-> TRUE, files |-> fs, at |-> 0] /\ n = 0
      /\ hist = <<[H(IF Batch THEN "batch" ELSE "load", "", "")
                   EXCEPT !.order = [k \in 1..Len(order) |-> PathOfId(is, order[k])], !.init = fs]>>

Dist(fs, anc) == Cardinality({p \in PathSet : fs[p] # anc.files[p]})

\* ---- emission: the expected abstract state after the transition that ends history h ----
\* (computed inside the action from explicit, unprimed values: TLC does not cache LET / argument values while it
\*  evaluates primed expressions, an action constraint over FullStep' was 50x slower)
FullStepOf(h, fs, is, d, anc) ==
  LET last == h[Len(h)]
      ideal == Ideal(fs, is)
      removal == last.op \in {"unset", "remove"} IN
  [obs |-> Obs(d, fs, is), sizes |-> Sizes(d, fs, is), ideal_sizes |-> Sizes(ideal, fs, is),
   dev |-> {k \in Components : Get(d, k) # Get(ideal, k)},
   order_sensitive |-> OrderSensitive(fs), files |-> fs, ids |-> is,
   same_as |-> IF last.op = "update" /\ anc.ok /\ anc.files = fs THEN anc.at ELSE 0 - 1,
   fresh |-> last.op # "update",
   independent |-> IF removal THEN Independent(fs, last.p, last.c) ELSE TRUE,
   absent |-> IF removal THEN <<last.p>> ELSE <<>>,
   dirs |-> [p \in PathSet |-> DirOf(fs, p)], libs |-> LibDirs(fs)]
SelOf(last, fs, anc) ==
  CASE EmitSel = "same" -> last.op = "update" /\ anc.ok /\ anc.files = fs
    [] EmitSel = "reindex" -> last.op = "reindex"
    [] EmitSel = "removal" -> last.op \in {"unset", "remove"}
    [] OTHER -> TRUE
\* The reduction merges states, so re-submissions that the model predicts to change nothing are self-loops /
\* edges to an already seen state: what has to be covered is every TRANSITION of the reduced graph.  Every action
\* therefore prints (as its last conjunct, evaluated for every generated successor, new or not) the history up to
\* and including the transition and the expected state after it.  Initial states are printed by the invariant Emit.
EmitT(h, fs, is, d, anc) ==
  SelOf(h[Len(h)], fs, anc) => PrintT(<<"S", ToJson([h |-> h, step |-> FullStepOf(h, fs, is, d, anc)])>>)

Update(p, c) ==
  /\ "update" \in Ops /\ n < MaxSteps
  /\ LET fs == [files EXCEPT ![p] = c]
         isNew == ids[p] = 0
         is == IF isNew THEN [ids EXCEPT ![p] = nextId] ELSE ids
         d == Add(Remove(db, is[p]), is, is[p], c)
         anc == IF isNew THEN [anchor EXCEPT !.ok = FALSE] ELSE anchor
         h == Append(hist, H("update", p, c)) IN
     /\ WellFormed(fs)
     /\ ~anchor.ok \/ Dist(fs, anchor) <= EditDist
     /\ files' = fs /\ ids' = is /\ nextId' = IF isNew THEN nextId + 1 ELSE nextId
     /\ db' = d /\ n' = n + 1 /\ anchor' = anc /\ hist' = h
     /\ EmitT(h, fs, is, d, anc)

Unset(p) ==
  /\ "unset" \in Ops /\ n < MaxSteps /\ files[p] # None
  /\ LET fs == [files EXCEPT ![p] = None]
         d == Remove(db, ids[p])
         anc == [anchor EXCEPT !.ok = FALSE]
         h == Append(hist, H("unset", p, files[p])) IN
     /\ files' = fs /\ db' = d /\ n' = n + 1 /\ UNCHANGED <<ids, nextId>>
     /\ anchor' = anc /\ hist' = h
     /\ EmitT(h, fs, ids, d, anc)

RemoveFile(p) ==
  /\ "remove" \in Ops /\ n < MaxSteps /\ files[p] # None
  /\ LET fs == [files EXCEPT ![p] = None]
         is == [ids EXCEPT ![p] = 0]
         d == Remove(db, ids[p])
         anc == [anchor EXCEPT !.ok = FALSE]
         h == Append(hist, H("remove", p, files[p])) IN
     /\ files' = fs /\ ids' = is /\ db' = d /\ n' = n + 1 /\ UNCHANGED nextId
     /\ anchor' = anc /\ hist' = h
     /\ EmitT(h, fs, is, d, anc)

Reindex ==
  /\ "reindex" \in Ops /\ n < MaxSteps /\ Live(files) # {}
  /\ hist[Len(hist)].op \notin {"reindex", "load", "batch"}
  /\ LET idset == IdOf(files, ids)
         d == AddBatch(RegisterAll(EmptyDb, idset), files, ids, SetToSeq(idset))
         anc == [ok |-> TRUE, files |-> files, at |-> n + 1]
         h == Append(hist, H("reindex", "", "")) IN
     /\ db' = d /\ n' = n + 1 /\ anchor' = anc /\ UNCHANGED <<files, ids, nextId>> /\ hist' = h
     /\ EmitT(h, files, ids, d, anc)

Next == \/ \E p \in PathSet, c \in Contents : Update(p, c)
        \/ \E p \in PathSet : Unset(p) \/ RemoveFile(p)
        \/ Reindex

Spec == Init /\ [][Next]_vars

\* state-space reduction: the history and the step counters are not part of the fingerprint
View == <<files, ids, db, anchor.ok, anchor.files>>

\* ------------------------------------------------------------------------------------------------
\* model-level verdicts
Last == hist[Len(hist)]
IdealNow == Ideal(files, ids)
DevNow == {k \in Components : Get(db, k) # Get(IdealNow, k)}

ReindexIsIdeal == Last.op \in {"reindex", "load"} => DevNow = {}

KF_DepEdge == \E e \in db.deps : e[2] \notin IdOf(files, ids)          \* edge to a removed / unset file
NoLeak == LET s == Sizes(db, files, ids) i == Sizes(IdealNow, files, ids) IN
          \A k \in DOMAIN s : s[k] <= i[k] \/ (k \in {"dependency_files", "dependency_items"} /\ KF_DepEdge)

\* C10: super edges and inherited members are owned by the declaring file: after any step they are exactly the
\* ideal ones (so the `supers` / `inherit` expectation of a removal step IS the fresh one)
InheritIdeal == /\ Obs(db, files, ids).supers = Obs(IdealNow, files, ids).supers
                /\ Obs(db, files, ids).inherit = Obs(IdealNow, files, ids).inherit

\* the property slot is single valued: the last analysed contributor wins and removing any contributor drops it
KF_Slot == "slot" \in DevNow
C08_Strict == (anchor.ok /\ files = anchor.files) => DevNow = {}            \* violated: this is the known finding
\* the members of a global path are listed under the class of the global by the analysis of the BINDING file only:
\* a member whose file is re-analysed alone drops out of Type(class) until the binding file is analysed again, and
\* stays listed there when the binding file goes away (the lists are owned by the files of the MEMBERS only)
KF_Migr == "migr" \in DevNow
C08_Model == (anchor.ok /\ files = anchor.files) => DevNow \subseteq {"slot", "migr"}

\* C11: the batch order must not matter (checked on the initial batch of every workspace when Batch = TRUE)
Confluent == (Batch /\ n = 0 /\ ~OrderSensitive(files)) => DevNow = {}
ConfluentStrict == (Batch /\ n = 0) => DevNow = {}       \* fails exactly on OrderSensitive workspaces

\* initial states (no incoming transition) are printed by this invariant
Emit == n = 0 => PrintT(<<"S", ToJson([h |-> hist, step |-> FullStepOf(hist, files, ids, db, anchor)])>>)
Texts == PrintT(<<"TEXTS", ToJson([c \in AllContents |-> Text(c)])>>)
ASSUME Texts
=============================================================================
