------------------------------ MODULE AnalysisDb ------------------------------
(* The analysis database of emmylua_code_analysis as "facts owned by files + merge rule" (C08, C09, C10, C11).

   A workspace is three paths /ws/a.lua, /ws/b.lua, /ws/c.lua whose content is drawn from a small alphabet of
   REAL Lua snippets (Text).  Each snippet is abstracted to the facts it contributes (types it declares, with
   which description, members, globals, requires, file-level diagnostic switches).

   Two layers:
     Ideal(files, ids)      what a fresh analysis of the current files yields - written declaratively from the
                            property ("facts = union over the live files"), independent of any history;
     db + Add/Remove/Clear  the TRANSCRIBED per-index rules of db_index/*/mod.rs: LuaTypeIndex (a decl lives while
                            some file declares it), LuaPropertyIndex (ONE slot per owner, every contributing file
                            overwrites it, `remove` of any contributor drops the whole slot), LuaGlobalIndex
                            (decl vector ordered by file id), LuaMemberIndex, LuaDependencyIndex (edges owned by the
                            requiring file only), LuaModuleIndex (tree node + fuzzy entry per file), DiagnosticIndex,
                            Vfs id interning (remove_file forgets the id, update(None) keeps it).

   Actions: Update(p,c) = Remove;Add   Unset(p) / RemoveFile(p) = Remove   Reindex = Clear;AddAll in id order
            UpdateBatch = Remove all; Add all in a NONDETERMINISTIC order (C11).
   TLC enumerates all histories up to MaxSteps (the history variable is hidden from the fingerprint by VIEW, so
   two histories reaching the same abstract state are explored once) and every TRANSITION of the reduced graph
   prints the history leading to it with the expected abstract state after it (model observables, model sizes,
   Ideal sizes, which components the model predicts to deviate from Ideal, the property obligations of the step).
   The harness replays every printed history into a real EmmyLuaAnalysis.

   Model-level verdicts (TLC invariants):
     ReindexIsIdeal   after Reindex (and after the initial Load) db = Ideal                       (C09 design)
     NoLeak           after every step every modelled map is no larger than in Ideal, except the
                      known dependency edge to a removed file (KF_DepEdge)                       (C10 design)
     C08_Model        back at the anchor's files => observables = Ideal's, except the single-valued
                      property slot (KF_Slot)                                                    (C08 design)
     Confluent        all analysis orders of a batch give the same db unless the workspace is
                      OrderSensitive (the same slot rule)                                        (C11 design)  *)
EXTENDS Integers, Sequences, FiniteSets, TLC, Json

CONSTANTS NPaths,      \* number of paths; registration order a, b, c
          Contents,    \* set of content names usable in this configuration
          Ops,         \* subset of {"update","unset","remove","reindex"}
          MaxSteps,
          EditDist,    \* max number of paths differing from the anchor (C08: 1; others: Len(Paths))
          Batch,       \* TRUE: the initial load is a batch in every order (C11)
          EmitSel      \* which transitions are printed: "all" | "same" (C08) | "reindex" (C09) | "removal" (C10)

VARIABLES files,       \* [letter -> content name | "-"]
          ids,         \* [letter -> Nat]  0 = not interned
          nextId,
          db,          \* the transcribed indexes
          anchor,      \* [ok, files, at]: last consistent point (Load / Reindex); ok = FALSE after a removal
          n,
          hist

vars == <<files, ids, nextId, db, anchor, n, hist>>
Paths == SubSeq(<<"a", "b", "c">>, 1, NPaths)
PathSet == {Paths[i] : i \in 1..Len(Paths)}
None == "-"

\* ------------------------------------------------------------------------------------------------
\* the content alphabet: real Lua text and the facts it contributes
Text(c) ==
  CASE c = "ClsDoc"   -> "---@class (partial) Foo Hello doc\n"
    [] c = "ClsDoc2"  -> "---@class (partial) Foo Other doc\n"
    [] c = "ClsPlain" -> "---@class (partial) Foo\n"
    [] c = "ClsField" -> "---@class (partial) Foo\n---@field bar integer\n"
    [] c = "GInt"     -> "GG = 1\n"
    [] c = "GStr"     -> "GG = \"s\"\n"
    [] c = "ReqB"     -> "local m = require(\"b\")\nreturn m\n"
    [] c = "Mod"      -> "local M = {}\nM.val = 1\nreturn M\n"
    [] c = "Alias"    -> "---@alias Id integer\n"
    [] c = "Enum"     -> "---@enum Color\nlocal Color = { Red = 1, Green = 2 }\nreturn Color\n"
    [] c = "DiagOff"  -> "---@diagnostic disable: undefined-global\nlocal y = zz\n"
    [] c = "Undef"    -> "local y = zz\n"
    [] c = "UseFoo"   -> "---@type Foo\nlocal f\nlocal v = f.bar\nlocal g = GG\n"
    [] c = "ClsSub"   -> "---@class Bar: Foo\n"
    [] c = "ReqA"     -> "local m = require(\"a\")\nreturn m\n"
    [] OTHER          -> ""
AllContents == {"ClsDoc", "ClsDoc2", "ClsPlain", "ClsField", "GInt", "GStr", "ReqB", "Mod", "Alias", "Enum",
                "DiagOff", "Undef", "UseFoo", "ClsSub", "ReqA"}
TypeNames == {"Foo", "Id", "Color", "Bar"}
GlobalNames == {"GG"}

Decl(c)  == CASE c \in {"ClsDoc", "ClsDoc2", "ClsPlain", "ClsField"} -> {"Foo"}
              [] c = "Alias" -> {"Id"} [] c = "Enum" -> {"Color"} [] c = "ClsSub" -> {"Bar"} [] OTHER -> {}
Sup(c)   == IF c = "ClsSub" THEN {<<"Bar", "Foo">>} ELSE {}
Desc(c)  == CASE c = "ClsDoc" -> "Hello doc" [] c = "ClsDoc2" -> "Other doc" [] OTHER -> ""
Mem(c)   == CASE c = "ClsField" -> {<<"Foo", "bar">>}
              [] c = "Enum" -> {<<"Color", "Red">>, <<"Color", "Green">>} [] OTHER -> {}
NMem(c)  == CASE c \in {"ClsField", "Mod"} -> 1 [] c = "Enum" -> 2 [] OTHER -> 0   \* entries of `members`
Glob(c)  == IF c \in {"GInt", "GStr"} THEN {"GG"} ELSE {}
Req(c)   == CASE c = "ReqB" -> {"b"} [] c = "ReqA" -> {"a"} [] OTHER -> {}
DOff(c)  == c = "DiagOff"
Uses(c)  == CASE c = "UseFoo" -> {"Foo", "GG"} [] c = "ReqB" -> {"mod:b"} [] c = "ReqA" -> {"mod:a"} [] c = "ClsSub" -> {"Foo"} [] OTHER -> {}
Partial(t) == t = "Foo"         \* Id and Color are not partial: declaring them twice is already a diagnostic

\* ------------------------------------------------------------------------------------------------
Live(fs) == {p \in PathSet : fs[p] # None}
IdOf(fs, is) == {is[p] : p \in Live(fs)}
PathOfId(is, i) == CHOOSE p \in PathSet : is[p] = i
Max(S) == CHOOSE x \in S : \A y \in S : y <= x
SetToSeq(S) == LET RECURSIVE F(_) F(T) == IF T = {} THEN <<>> ELSE LET m == CHOOSE x \in T : \A y \in T : x <= y
                                                                   IN <<m>> \o F(T \ {m}) IN F(S)

EmptyDb == [typeLocs |-> [t \in TypeNames |-> {}],
            slot |-> [t \in TypeNames |-> "none"],
            slotOwners |-> {},
            supers |-> {},              \* <<type, super, id>>: LuaTypeIndex.supers, a vector of InFiled per type
            members |-> {},
            nmem |-> {},                \* <<id, count>> rows of LuaMemberIndex.members per file
            globals |-> [g \in GlobalNames |-> <<>>],
            deps |-> {},
            modules |-> {},
            doff |-> {}]

\* module name -> the live, indexed file with that name (flat workspace: module name = path letter)
ModTarget(d, is, r) == {i \in d.modules : \E p \in PathSet : is[p] = i /\ p = r}

SortedInsert(s, i) == SetToSeq({s[k] : k \in 1..Len(s)} \cup {i})

\* ---- transcribed rules ----
Add(d, is, i, c) ==
  [d EXCEPT
     !.modules = @ \cup {i},
     !.typeLocs = [t \in TypeNames |-> IF t \in Decl(c) THEN @[t] \cup {i} ELSE @[t]],
     \* analyze_class/alias/enum -> add_description(file, TypeDecl(t), text): get_or_create + ASSIGN
     !.slot = [t \in TypeNames |-> IF t \in Decl(c) THEN Desc(c) ELSE @[t]],
     !.slotOwners = @ \cup {<<i, t>> : t \in Decl(c)},
     !.supers = @ \cup {<<x[1], x[2], i>> : x \in Sup(c)},
     !.members = @ \cup {<<m[1], m[2], i>> : m \in Mem(c)},
     !.nmem = IF NMem(c) > 0 THEN @ \cup {<<i, NMem(c)>>} ELSE @,
     !.globals = [g \in GlobalNames |-> IF g \in Glob(c) THEN SortedInsert(@[g], i) ELSE @[g]],
     \* the dependency edge is created when the requiring file is analysed and the module resolves then
     !.deps = @ \cup {<<i, j>> : j \in UNION {ModTarget([d EXCEPT !.modules = @ \cup {i}], is, r) : r \in Req(c)}},
     !.doff = IF DOff(c) THEN @ \cup {i} ELSE @]

Remove(d, i) ==
  [d EXCEPT
     !.modules = @ \ {i},
     !.typeLocs = [t \in TypeNames |-> @[t] \ {i}],
     \* LuaPropertyIndex::remove: every owner this file contributed to loses its WHOLE property
     !.slot = [t \in TypeNames |-> IF <<i, t>> \in d.slotOwners THEN "none" ELSE @[t]],
     !.slotOwners = {o \in @ : o[1] # i},
     !.supers = {x \in @ : x[3] # i},
     !.members = {m \in @ : m[3] # i},
     !.nmem = {m \in @ : m[1] # i},
     !.globals = [g \in GlobalNames |-> SelectSeq(@[g], LAMBDA x : x # i)],
     \* LuaDependencyIndex::remove drops only the file's OWN edge set; edges pointing to it stay
     !.deps = {e \in @ : e[1] # i},
     !.doff = @ \ {i}]

RECURSIVE AddSeq(_, _, _, _)
AddSeq(d, fs, is, order) ==   \* order: sequence of ids; all modules are registered before analysis (module_analyze)
  IF order = <<>> THEN d
  ELSE AddSeq(Add(d, is, Head(order), fs[PathOfId(is, Head(order))]), fs, is, Tail(order))

RegisterAll(d, idset) == [d EXCEPT !.modules = @ \cup idset]

\* ---- the declarative layer ----
Ideal(fs, is) ==
  LET live == Live(fs)
      declaring(t) == {p \in live : t \in Decl(fs[p])}
      lastDecl(t) == CHOOSE p \in declaring(t) : \A q \in declaring(t) : is[q] <= is[p]
  IN [typeLocs |-> [t \in TypeNames |-> {is[p] : p \in declaring(t)}],
      slot |-> [t \in TypeNames |-> IF declaring(t) = {} THEN "none" ELSE Desc(fs[lastDecl(t)])],
      slotOwners |-> UNION {{<<is[p], t>> : t \in Decl(fs[p])} : p \in live},
      supers |-> UNION {{<<x[1], x[2], is[p]>> : x \in Sup(fs[p])} : p \in live},
      members |-> UNION {{<<m[1], m[2], is[p]>> : m \in Mem(fs[p])} : p \in live},
      nmem |-> {<<is[p], NMem(fs[p])>> : p \in {q \in live : NMem(fs[q]) > 0}},
      globals |-> [g \in GlobalNames |-> SetToSeq({is[p] : p \in {q \in live : g \in Glob(fs[q])}})],
      deps |-> UNION {{<<is[p], is[q]>> : q \in {r \in live : r \in Req(fs[p])}} : p \in live},
      modules |-> {is[p] : p \in live},
      doff |-> {is[p] : p \in {q \in live : DOff(fs[q])}}]

\* a workspace whose fresh result depends on the analysis order (C11 interaction): a type whose declaring files
\* disagree on the description
OrderSensitive(fs) == \E t \in TypeNames : \E p, q \in Live(fs) :
                         t \in Decl(fs[p]) /\ t \in Decl(fs[q]) /\ Desc(fs[p]) # Desc(fs[q])

Components == {"typeLocs", "slot", "slotOwners", "supers", "members", "nmem", "globals", "deps", "modules", "doff"}
Get(d, k) == CASE k = "typeLocs" -> d.typeLocs [] k = "slot" -> d.slot [] k = "slotOwners" -> d.slotOwners
               [] k = "supers" -> d.supers [] k = "members" -> d.members [] k = "nmem" -> d.nmem [] k = "globals" -> d.globals
               [] k = "deps" -> d.deps [] k = "modules" -> d.modules [] k = "doff" -> d.doff
Dev(d, fs, is) == {k \in Components : Get(d, k) # Get(Ideal(fs, is), k)}

\* ---- sizes of the real maps that the model predicts exactly (names = DbIndex::verif_sizes) ----
Sum(S, F(_)) == LET RECURSIVE G(_) G(T) == IF T = {} THEN 0 ELSE LET x == CHOOSE y \in T : TRUE IN F(x) + G(T \ {x})
                IN G(S)
Sizes(d, fs, is) ==
  LET nlive == Cardinality(Live(fs))
      declared == {t \in TypeNames : d.typeLocs[t] # {}}
      typeFiles == UNION {d.typeLocs[t] : t \in TypeNames}
      LenLocs(t) == Cardinality(d.typeLocs[t])
      LenG(g) == Len(d.globals[g])
      NM(m) == m[2]
  IN [vfs_file_id_map |-> Cardinality({p \in PathSet : is[p] # 0}),
      vfs_live |-> nlive,
      vfs_tree_map |-> nlive,
      decl_trees |-> nlive,
      flow_trees |-> nlive,
      file_references |-> nlive,
      module_file_module_map |-> Cardinality(d.modules),
      module_nodes |-> 1 + Cardinality(d.modules),
      module_fuzzy |-> Cardinality(d.modules),
      module_fuzzy_items |-> Cardinality(d.modules),
      type_file_types |-> Cardinality(typeFiles),
      type_full_name |-> Cardinality(declared),
      type_locations |-> Sum(TypeNames, LenLocs),
      type_global_names |-> Cardinality(declared),
      type_supers |-> Cardinality({x[1] : x \in d.supers}),
      type_supers_items |-> Cardinality(d.supers),
      global_decl |-> Cardinality({g \in GlobalNames : d.globals[g] # <<>>}),
      global_decl_items |-> Sum(GlobalNames, LenG),
      property_properties |-> Cardinality({t \in TypeNames : d.slot[t] # "none"}),
      property_in_filed_owner |-> Cardinality({o[1] : o \in d.slotOwners}),
      property_in_filed_owner_items |-> Cardinality(d.slotOwners),
      member_members |-> Sum(d.nmem, NM),
      dependency_files |-> Cardinality({e[1] : e \in d.deps}),
      dependency_items |-> Cardinality(d.deps),
      diag_disabled |-> Cardinality(d.doff)]

\* ---- observables the harness compares with the real queries ----
Obs(d, fs, is) ==
  [desc |-> [t \in TypeNames |-> IF d.typeLocs[t] = {} THEN "<no-type>"
                                  ELSE IF d.slot[t] = "none" THEN "" ELSE d.slot[t]],
   typelocs |-> [t \in TypeNames |-> {PathOfId(is, i) : i \in d.typeLocs[t]}],
   globals |-> [g \in GlobalNames |-> [k \in 1..Len(d.globals[g]) |-> PathOfId(is, d.globals[g][k])]],
   members |-> [t \in TypeNames |-> {<<m[2], PathOfId(is, m[3])>> : m \in {x \in d.members : x[1] = t}}],
   supers |-> [t \in TypeNames |-> {x[2] : x \in {y \in d.supers : y[1] = t}}],
   modules |-> [r \in PathSet |-> LET tg == ModTarget(d, is, r) IN
                                   IF tg = {} THEN "<none>" ELSE PathOfId(is, CHOOSE i \in tg : TRUE)]]

\* what a removed file provided / whether a remaining file shares or uses it (then the remaining files' own
\* cached facts may legitimately differ from a fresh analysis and only the modelled sizes are judged)
Names(c, p) == Decl(c) \cup Glob(c) \cup {"mod:" \o p}
Independent(fs, p, c) == \A q \in Live(fs) : (Decl(fs[q]) \cup Glob(fs[q]) \cup Uses(fs[q])) \cap Names(c, p) = {}

\* ------------------------------------------------------------------------------------------------
\* hist holds compact steps [op, p, c, order]; for unset/remove c is the content that was removed
H(op, p, c) == [op |-> op, p |-> p, c |-> c, order |-> <<>>, init |-> <<>>]

WellFormed(fs) ==
  /\ \A t \in TypeNames : ~Partial(t) => Cardinality({p \in Live(fs) : t \in Decl(fs[p])}) <= 1
  /\ "b" \in PathSet => fs["b"] # "ReqB"             \* no self-require
  /\ fs["a"] # "ReqA"

InitFiles == {fs \in [PathSet -> Contents \cup {None}] : WellFormed(fs) /\ Live(fs) # {}}

RegIds(fs) == LET RECURSIVE F(_, _) F(k, next) ==
                    IF k > Len(Paths) THEN [p \in {} |-> 0]
                    ELSE IF fs[Paths[k]] = None THEN (Paths[k] :> 0) @@ F(k + 1, next)
                         ELSE (Paths[k] :> next) @@ F(k + 1, next + 1)
              IN F(1, 1)

Perms(S) == LET RECURSIVE P(_) P(T) == IF T = {} THEN {<<>>} ELSE UNION {{<<x>> \o s : s \in P(T \ {x})} : x \in T}
            IN P(S)

Init ==
  \E fs \in InitFiles :
    LET is == RegIds(fs)
        idset == IdOf(fs, is) IN
    \E order \in (IF Batch THEN Perms(idset) ELSE {SetToSeq(idset)}) :
      /\ files = fs /\ ids = is /\ nextId = Cardinality(idset) + 1
      /\ db = AddSeq(RegisterAll(EmptyDb, idset), fs, is, order)
      /\ anchor = [ok |-> TRUE, files |-> fs, at |-> 0] /\ n = 0
      /\ hist = <<[H(IF Batch THEN "batch" ELSE "load", "", "")
                   EXCEPT !.order = [k \in 1..Len(order) |-> PathOfId(is, order[k])], !.init = fs]>>

Dist(fs, anc) == Cardinality({p \in PathSet : fs[p] # anc.files[p]})

\* ---- emission: the expected abstract state after the transition that ends history h ----
\* (computed inside the action from explicit, unprimed values: TLC does not cache LET / argument values while it
\*  evaluates primed expressions, an action constraint over FullStep' was 50x slower)
FullStepOf(h, fs, is, d, anc) ==
  LET last == h[Len(h)]
      ideal == Ideal(fs, is)
      removal == last.op \in {"unset", "remove"} IN
  [obs |-> Obs(d, fs, is), sizes |-> Sizes(d, fs, is), ideal_sizes |-> Sizes(ideal, fs, is),
   dev |-> {k \in Components : Get(d, k) # Get(ideal, k)},
   order_sensitive |-> OrderSensitive(fs), files |-> fs, ids |-> is,
   same_as |-> IF last.op = "update" /\ anc.ok /\ anc.files = fs THEN anc.at ELSE 0 - 1,
   fresh |-> last.op # "update",
   independent |-> IF removal THEN Independent(fs, last.p, last.c) ELSE TRUE,
   absent |-> IF removal THEN <<last.p>> ELSE <<>>]
SelOf(last, fs, anc) ==
  CASE EmitSel = "same" -> last.op = "update" /\ anc.ok /\ anc.files = fs
    [] EmitSel = "reindex" -> last.op = "reindex"
    [] EmitSel = "removal" -> last.op \in {"unset", "remove"}
    [] OTHER -> TRUE
\* The reduction merges states, so re-submissions that the model predicts to change nothing are self-loops /
\* edges to an already seen state: what has to be covered is every TRANSITION of the reduced graph.  Every action
\* therefore prints (as its last conjunct, evaluated for every generated successor, new or not) the history up to
\* and including the transition and the expected state after it.  Initial states are printed by the invariant Emit.
EmitT(h, fs, is, d, anc) ==
  SelOf(h[Len(h)], fs, anc) => PrintT(<<"S", ToJson([h |-> h, step |-> FullStepOf(h, fs, is, d, anc)])>>)

Update(p, c) ==
  /\ "update" \in Ops /\ n < MaxSteps
  /\ LET fs == [files EXCEPT ![p] = c]
         isNew == ids[p] = 0
         is == IF isNew THEN [ids EXCEPT ![p] = nextId] ELSE ids
         d == Add(Remove(db, is[p]), is, is[p], c)
         anc == IF isNew THEN [anchor EXCEPT !.ok = FALSE] ELSE anchor
         h == Append(hist, H("update", p, c)) IN
     /\ WellFormed(fs)
     /\ ~anchor.ok \/ Dist(fs, anchor) <= EditDist
     /\ files' = fs /\ ids' = is /\ nextId' = IF isNew THEN nextId + 1 ELSE nextId
     /\ db' = d /\ n' = n + 1 /\ anchor' = anc /\ hist' = h
     /\ EmitT(h, fs, is, d, anc)

Unset(p) ==
  /\ "unset" \in Ops /\ n < MaxSteps /\ files[p] # None
  /\ LET fs == [files EXCEPT ![p] = None]
         d == Remove(db, ids[p])
         anc == [anchor EXCEPT !.ok = FALSE]
         h == Append(hist, H("unset", p, files[p])) IN
     /\ files' = fs /\ db' = d /\ n' = n + 1 /\ UNCHANGED <<ids, nextId>>
     /\ anchor' = anc /\ hist' = h
     /\ EmitT(h, fs, ids, d, anc)

RemoveFile(p) ==
  /\ "remove" \in Ops /\ n < MaxSteps /\ files[p] # None
  /\ LET fs == [files EXCEPT ![p] = None]
         is == [ids EXCEPT ![p] = 0]
         d == Remove(db, ids[p])
         anc == [anchor EXCEPT !.ok = FALSE]
         h == Append(hist, H("remove", p, files[p])) IN
     /\ files' = fs /\ ids' = is /\ db' = d /\ n' = n + 1 /\ UNCHANGED nextId
     /\ anchor' = anc /\ hist' = h
     /\ EmitT(h, fs, is, d, anc)

Reindex ==
  /\ "reindex" \in Ops /\ n < MaxSteps /\ Live(files) # {}
  /\ hist[Len(hist)].op \notin {"reindex", "load", "batch"}
  /\ LET idset == IdOf(files, ids)
         d == AddSeq(RegisterAll(EmptyDb, idset), files, ids, SetToSeq(idset))
         anc == [ok |-> TRUE, files |-> files, at |-> n + 1]
         h == Append(hist, H("reindex", "", "")) IN
     /\ db' = d /\ n' = n + 1 /\ anchor' = anc /\ UNCHANGED <<files, ids, nextId>> /\ hist' = h
     /\ EmitT(h, files, ids, d, anc)

Next == \/ \E p \in PathSet, c \in Contents : Update(p, c)
        \/ \E p \in PathSet : Unset(p) \/ RemoveFile(p)
        \/ Reindex

Spec == Init /\ [][Next]_vars

\* state-space reduction: the history and the step counters are not part of the fingerprint
View == <<files, ids, db, anchor.ok, anchor.files>>

\* ------------------------------------------------------------------------------------------------
\* model-level verdicts
Last == hist[Len(hist)]
IdealNow == Ideal(files, ids)
DevNow == {k \in Components : Get(db, k) # Get(IdealNow, k)}

ReindexIsIdeal == Last.op \in {"reindex", "load"} => DevNow = {}

KF_DepEdge == \E e \in db.deps : e[2] \notin IdOf(files, ids)          \* edge to a removed / unset file
NoLeak == LET s == Sizes(db, files, ids) i == Sizes(IdealNow, files, ids) IN
          \A k \in DOMAIN s : s[k] <= i[k] \/ (k \in {"dependency_files", "dependency_items"} /\ KF_DepEdge)

\* the property slot is single valued: the last analysed contributor wins and removing any contributor drops it
KF_Slot == "slot" \in DevNow
C08_Strict == (anchor.ok /\ files = anchor.files) => DevNow = {}            \* violated: this is the known finding
C08_Model == (anchor.ok /\ files = anchor.files) => (DevNow = {} \/ (KF_Slot /\ DevNow = {"slot"}))

\* C11: the batch order must not matter (checked on the initial batch of every workspace when Batch = TRUE)
Confluent == (Batch /\ n = 0 /\ ~OrderSensitive(files)) => DevNow = {}
ConfluentStrict == (Batch /\ n = 0) => DevNow = {}       \* fails exactly on OrderSensitive workspaces

\* initial states (no incoming transition) are printed by this invariant
Emit == n = 0 => PrintT(<<"S", ToJson([h |-> hist, step |-> FullStepOf(hist, files, ids, db, anchor)])>>)
Texts == PrintT(<<"TEXTS", ToJson([c \in AllContents |-> Text(c)])>>)
ASSUME Texts
=============================================================================
