SPECIFICATION Spec
CONSTANTS
  Variant = "fixed"
  Tier = "t"
  MaxFiles = 2
  MaxPerFile = 2
  MaxTotal = 2
  EmitCases = TRUE
INVARIANTS NoCrash LaterWins FlatIsNested Emit
