\* the design of the pinned tree: TLC must find the ExactlyOne violation
SPECIFICATION Spec
CONSTANTS
  MaxMsgs = 3
  MaxReqs = 2
  StartPhases = {"pre", "init", "ready"}
  Kinds = {"req", "cancel", "notif", "resp", "initialize", "initialized", "shutdown", "exit"}
  BadParams = {"drop"}
  Panic = {"silent"}
  BadInit = {"die"}
  PostShutdown = {"die"}
  CancelDesign = "flag"
  SyncWire = FALSE
VIEW view
INVARIANTS TypeOK ExactlyOne
