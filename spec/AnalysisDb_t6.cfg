SPECIFICATION Spec
CONSTANTS
  NPaths = 3
  Contents = {"ClsOp", "ClsOp2", "UseOp", "ClsDoc", "UseFoo"}
  Ops = {"update", "reindex"}
  MaxSteps = 4
  EditDist = 1
  Batch = FALSE
  EmitSel = "same"
VIEW View
INVARIANTS ReindexIsIdeal NoLeak C08_Model Emit
