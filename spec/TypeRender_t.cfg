SPECIFICATION Spec
CONSTANTS
  AtomNames = {"nil", "boolean", "integer", "number", "string", "table", "true", "false", "1", "-1", "s", "sp", "dq", "bs", "A", "B", "Al", "E"}
  SibNames = {"integer", "nil", "s"}
  KeyNames = {"string", "integer"}
  RecShapes1 = {"x", "x?", "[1]", "['a-b']", "[string]", "['a b']", "['1']", "[dq]", "['']"}
  RecShapes2 = {"x,y?", "x,[string]", "x,['a b']"}
  Depth2Kinds = {"union", "opt", "arr", "map", "rec"}
  Depth3Kinds = {"opt", "arr", "union", "map"}
  Depth3Cons = {"arr", "opt", "union", "map"}
  LitNames = {"s", "dq", "bs", "empty", "digit", "sq", "bsn", "bsdq", "nl", "cr", "tab", "ctl", "ctld", "ctlF", "ctldd", "nul", "nuld", "bel", "esc", "escd", "del", "nel", "u8", "u8d", "cjk", "astral", "0", "1", "-1", "-2", "i32", "-i32", "f53", "max", "-max", "true", "false"}
  LitDepth2Kinds = {"union", "opt", "arr", "map", "rec"}
INVARIANTS FitsOk DepthOk Emit
