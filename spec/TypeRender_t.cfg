SPECIFICATION Spec
CONSTANTS
  AtomNames = {"nil", "boolean", "integer", "number", "string", "table", "true", "false", "1", "-1", "s", "sp", "dq", "bs", "A", "B", "Al", "E"}
  SibNames = {"integer", "nil", "s"}
  KeyNames = {"string", "integer"}
  RecShapes1 = {"x", "x?", "[1]", "['a-b']", "[string]"}
  RecShapes2 = {"x,y?", "x,[string]"}
  Depth2Kinds = {"union", "opt", "arr", "map", "rec"}
  Depth3Kinds = {"opt", "arr", "union", "map"}
  Depth3Cons = {"arr", "opt", "union", "map"}
INVARIANTS FitsOk DepthOk Emit
