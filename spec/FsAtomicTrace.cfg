SPECIFICATION Spec
CONSTANT Script <- TraceScript
INVARIANT Emit
POSTCONDITION Accepted
