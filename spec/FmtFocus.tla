------------------------------ MODULE FmtFocus ------------------------------
(* Focused input families for the formatter properties C05 / C06 (added after the seeded review).

   FmtGen.tla crosses every construct with 4 corner configurations (mode single) or with random lattice points
   (mode sim).  Some regions of (program x configuration) need a DENSE cross that neither mode gives in the quick tier:

   family "quote"    every short string of FmtGen!EscStrs (escape sequences next to quote characters, both quote
                     kinds) in every string context  x  quote_style {Preserve, Double, Single}
                     x  single_arg_call_parens {Preserve, Always, Omit}.  Exhaustive in both tiers.
   family "comment"  groups of 2-3 consecutive entries with trailing line comments -- statements (local / assignment /
                     mixed kinds, top level and inside a block), keyed and array table fields, call arguments,
                     parameters -- with the source gaps that matter (single blank, two blanks = what the formatter
                     itself writes for min_spaces 2, one wide gap = an alignment request, no blank after `--`,
                     a standalone comment line inside the group)
                     x  the comment options of LuaFormatConfig: line_comment_min_spaces_before {1, 2, 3} crossed
                     with a strength-2 orthogonal array (16 rows) over the 9 remaining options of `comments`
                     (quick: 48 points, every PAIR of option values occurs -- checked by TLC, ASSUME PairwiseOK);
                     thorough: the full product (1536 points) x PerPoint programs drawn by TLC per point.
   family "doc"      the doc-annotation blocks of FmtGen!Leading x a strength-2 orthogonal array over the 7 options
                     of `emmy_doc` (8 rows, ASSUME DocPairwiseOK); thorough: the full product (128).
   family "lambda"   calls with a function argument (first / last / only / twice, in a method chain, nested, in a table
                     field) whose body has 1-2 statements, written on one line and on several lines  x  2 configurations.

   family "semi"     (second seeded round, C05) a statement that ends in an expression and is closed by `;`, then nothing /
                     a line comment / a doc comment / a long comment / several comments (same line and own lines), then
                     a statement that starts with `(`: the `;` is NOT optional there (`x = y; -- c` NL `(f)()` without it
                     is the single statement `x = y(f)()`), however many comments stand in between.  x 3 configurations
                     (semicolons dropped = default, preserved, narrow width).
   family "blank"    (second seeded round, C06) tables, call argument lists, parameter lists and blocks with one or two
                     blank lines directly after the opening bracket / keyword and / or directly before the closing one,
                     WITHOUT comments, short enough for one line  x  the base + 4 corner configurations.

   Every state is one finished case, printed by FmtGen!Emit as {text, cfg, n, kinds = <<family>>}.  *)
EXTENDS FmtGen, Randomization

CONSTANTS Families,   \* subset of {"quote", "comment", "doc", "lambda", "semi", "blank"}
          Full,       \* FALSE: pairwise configuration sets (quick); TRUE: full products (thorough)
          PerPoint    \* Full only: programs drawn per configuration point

\* ---------------------------------------------------------------------------------------------
\* family "quote"
\* ---------------------------------------------------------------------------------------------
StrCtx(s) == {"local v = " \o s, "f(" \o s \o ")", "o:m " \o s, "t = {" \o s \o ", [" \o s \o "] = 1}",
              "return " \o s \o " .. 'x' .. \"y\"", "(" \o s \o "):len()"}
QuoteProgs == UNION {StrCtx(s) : s \in EscStrs}
QuoteCfgs == {Cfg(q, p, "Never", FALSE, 120, "s4", FALSE, TRUE, "Auto") :
                q \in {"Preserve", "Double", "Single"}, p \in {"Preserve", "Always", "Omit"}}

\* ---------------------------------------------------------------------------------------------
\* orthogonal arrays of strength 2 over boolean factors: row r (0 .. 2^m - 1), column with mask c holds the parity
\* of r AND c; two columns with distinct non-zero masks are independent, so every pair of values occurs.
\* ---------------------------------------------------------------------------------------------
Bit(x, k) == (x \div (2 ^ k)) % 2
Par(r, c) == (Bit(r, 0) * Bit(c, 0) + Bit(r, 1) * Bit(c, 1) + Bit(r, 2) * Bit(c, 2) + Bit(r, 3) * Bit(c, 3)) % 2 = 1
Pairwise(S, All) == \A f \in DOMAIN (CHOOSE x \in All : TRUE) : \A g \in DOMAIN (CHOOSE x \in All : TRUE) :
                      f # g => \A vf \in {x[f] : x \in All} : \A vg \in {x[g] : x \in All} :
                                 \E y \in S : y[f] = vf /\ y[g] = vg

\* ---------------------------------------------------------------------------------------------
\* family "comment": configurations
\* ---------------------------------------------------------------------------------------------
CommentsRec(b, ms) ==
  [align_line_comments |-> b[1], align_in_statements |-> b[2], align_in_table_fields |-> b[3],
   align_in_call_args |-> b[4], align_in_params |-> b[5], align_across_standalone_comments |-> b[6],
   align_same_kind_only |-> b[7], space_after_comment_dash |-> b[8],
   line_comment_min_column |-> IF b[9] THEN 24 ELSE 0, line_comment_min_spaces_before |-> ms]
CMask == <<1, 2, 4, 8, 14, 7, 11, 13, 6>>        \* master switch and the four per-context switches are 3-wise independent
CommentPtsPair == {CommentsRec([k \in 1..9 |-> Par(r, CMask[k])], ms) : r \in 0..15, ms \in {1, 2, 3}}
CommentPtsAll == {CommentsRec(b, ms) : b \in [1..9 -> BOOLEAN], ms \in {1, 2, 3}}
ASSUME PairwiseOK == Pairwise(CommentPtsPair, CommentPtsAll)
\* the corner every defect of the alignment hint needs: alignment switched on for the context AND a non-default gap
ASSUME HintCornerOK == \A ms \in {2, 3} : \A f \in {"align_in_statements", "align_in_table_fields", "align_in_call_args", "align_in_params"} :
                         \E y \in CommentPtsPair : y.line_comment_min_spaces_before = ms /\ y.align_line_comments /\ y[f]
BaseCfg == Cfg("Preserve", "Preserve", "Never", FALSE, 120, "s4", FALSE, TRUE, "Auto")
WithComments(c) == [BaseCfg EXCEPT !.comments = c]
CommentCfgs == {WithComments(c) : c \in IF Full THEN CommentPtsAll ELSE CommentPtsPair}

\* ---------------------------------------------------------------------------------------------
\* family "comment": programs
\* ---------------------------------------------------------------------------------------------
Items(k) == CASE k = "local"  -> <<"local a = 1", "local total_count = 2", "local cc = 3">>
              [] k = "assign" -> <<"a = 1", "bb.c.d = f(2)", "ccc = 3">>
              [] k = "mixed"  -> <<"local a = 1", "bbbbbb = 2", "f(a, 3)">>
              [] k = "field"  -> <<"a = 1", "bbbb = 2", "cc = 3">>
              [] k = "array"  -> <<"1", "222222", "33">>
              [] k = "arg"    -> <<"a", "bbbbbbbb", "cc">>
              [] k = "param"  -> <<"a", "bbbbbbbb", "cc">>
StatKinds == {"local", "assign", "mixed"}
ListKinds == {"field", "array", "arg", "param"}
Words == <<"first", "second", "third">>
\* <<gap before the comment of entry 1, 2, 3, blank after `--`>>
GapPatterns == {<<" ", " ", " ", TRUE>>, <<"  ", "  ", "  ", TRUE>>, <<" ", " ", "    ", TRUE>>, <<"   ", " ", " ", TRUE>>,
                <<" ", "  ", " ", FALSE>>}
Shapes == {<<2, FALSE>>, <<3, FALSE>>, <<3, TRUE>>}      \* <<entries, a standalone comment line after the first entry>>
Line(k, m, cnt, g, ind) ==
  ind \o Items(k)[m] \o (IF k \in ListKinds /\ m < cnt THEN "," ELSE "") \o g[m]
      \o (IF g[4] THEN "-- " ELSE "--") \o Words[m]
Lines(k, sh, g, ind) ==
  Line(k, 1, sh[1], g, ind) \o NL \o (IF sh[2] THEN ind \o "-- standalone" \o NL ELSE "") \o Line(k, 2, sh[1], g, ind)
    \o (IF sh[1] = 3 THEN NL \o Line(k, 3, sh[1], g, ind) ELSE "")
Group(k, sh, g, nested) ==
  CASE k \in StatKinds /\ ~nested -> Lines(k, sh, g, "")
    [] k \in StatKinds /\ nested -> "do" \o NL \o Lines(k, sh, g, "    ") \o NL \o "end"
    [] k \in {"field", "array"} -> "local t = {" \o NL \o Lines(k, sh, g, "  ") \o NL \o "}"
    [] k = "arg" -> "foo(" \o NL \o Lines(k, sh, g, "    ") \o NL \o ")"
    [] k = "param" -> "local function f(" \o NL \o Lines(k, sh, g, "    ") \o NL \o ")" \o NL \o "end"
GroupProgs == {Group(k, sh, g, FALSE) : k \in StatKinds \cup ListKinds, sh \in Shapes, g \in GapPatterns}
              \cup {Group(k, sh, g, TRUE) : k \in StatKinds, sh \in Shapes, g \in GapPatterns}
\* thorough: every point of the full product gets PerPoint programs drawn by TLC (reproducible with -seed)
ProgsFor(S) == IF Full THEN RandomSubset(PerPoint, S) ELSE S

\* ---------------------------------------------------------------------------------------------
\* family "doc"
\* ---------------------------------------------------------------------------------------------
DocRec(b) == [align_tag_columns |-> b[1], align_declaration_tags |-> b[2], align_reference_tags |-> b[3],
              align_multiline_alias_descriptions |-> b[4], space_between_tag_columns |-> b[5],
              space_after_description_dash |-> b[6], compact_type_or |-> b[7]]
DMask == <<1, 2, 4, 3, 5, 6, 7>>
DocPtsPair == {DocRec([k \in 1..7 |-> Par(r, DMask[k])]) : r \in 0..7}
DocPtsAll == {DocRec(b) : b \in [1..7 -> BOOLEAN]}
ASSUME DocPairwiseOK == Pairwise(DocPtsPair, DocPtsAll)
DocCfgs == {[BaseCfg EXCEPT !.emmy_doc = d] : d \in IF Full THEN DocPtsAll ELSE DocPtsPair}
DocProgs == {l \o NL \o "local v = f 's'" : l \in Leading}
            \cup {l \o NL \o "function M.g(a, bb, ...) return a end" : l \in Leading}

\* ---------------------------------------------------------------------------------------------
\* family "lambda": calls with a function argument whose body cannot stay on one line (the layout of the argument
\* list is decided from the SOURCE shape of the closure, so a closure written on one line and one written on
\* several lines take different paths)
\* ---------------------------------------------------------------------------------------------
LamBodies == {"f()", "f() g()", "local y = x; return y", "return x", "if x then return b end return c"}
LamOne(b) == "function(x) " \o b \o " end"
LamMulti(b) == "function(x)" \o NL \o "    " \o b \o NL \o "end"
LamCalls(l) == {"pcall(" \o l \o ")", "foo(a, " \o l \o ")", "foo(" \o l \o ", b)", "local r = o:m(a, 1, " \o l \o ")",
                "o:on('x', " \o l \o "):on('y', " \o l \o ")", "describe('x', function() it('y', " \o l \o ") end)",
                "return f(" \o l \o ", " \o l \o ")", "t = { k = f(" \o l \o ") }"}
LambdaProgs == UNION {LamCalls(LamOne(b)) \cup LamCalls(LamMulti(b)) : b \in LamBodies}
LambdaCfgs == {BaseCfg, Cfg("Preserve", "Preserve", "Never", FALSE, 120, "s2", TRUE, TRUE, "Always")}

\* ---------------------------------------------------------------------------------------------
\* family "semi": `stat ;` <comments> `( .. )( .. )` -- the semicolon separates two statements and must survive
\* ---------------------------------------------------------------------------------------------
SemiHeads == {"x = y;", "x = y ;", "local t = g();", "f(a);", "x.y = t[1];"}
SemiGaps == {" ", NL, " -- call it" \o NL, NL \o "-- own line" \o NL, " --[[ blk ]] ", " --[[ blk ]]" \o NL,
             NL \o "--[==[ long" \o NL \o "  comment ]==]" \o NL, " ---@type T" \o NL,
             NL \o "---@diagnostic disable-next-line: undefined-global" \o NL,
             " -- a" \o NL \o "-- b" \o NL \o NL \o "--[[ c ]]" \o NL}
SemiTails == {"(f)()", "(h or print)(t)", "(f or g)(1):m()"}
SemiWrap(s, w) == IF w = "top" THEN s ELSE "do" \o NL \o "    " \o s \o NL \o "end"
SemiProgs == {SemiWrap(h \o g \o t, w) : h \in SemiHeads, g \in SemiGaps, t \in SemiTails, w \in {"top", "do"}}
SemiCfgs == {BaseCfg, Cfg("Preserve", "Preserve", "Never", TRUE, 120, "s4", FALSE, TRUE, "Auto"),
             Cfg("Double", "Omit", "Never", FALSE, 24, "s2", FALSE, TRUE, "Auto")}

\* ---------------------------------------------------------------------------------------------
\* family "blank": blank lines directly inside a bracket pair / block, no comments (o = text after the opener,
\* c = text before the closer: empty, one or two blank lines)
\* ---------------------------------------------------------------------------------------------
BlankShell(k, o, c) ==
  CASE k = "rec"    -> "local t = {" \o NL \o o \o "    a = 1," \o NL \o "    b = 2," \o NL \o c \o "}"
    [] k = "arr"    -> "local t = {" \o NL \o o \o "    1, 2, 3" \o NL \o c \o "}"
    [] k = "mod"    -> "local M = {}" \o NL \o NL \o "M.defaults = {" \o NL \o o \o "    enabled = true," \o NL \o "    level = 3,"
                         \o NL \o c \o "}" \o NL \o NL \o "return M"
    [] k = "nest"   -> "local t = { k = {" \o NL \o o \o "    1," \o NL \o "    2" \o NL \o c \o "} }"
    [] k = "ret"    -> "return {" \o NL \o o \o "    x = 'a'" \o NL \o c \o "}"
    [] k = "targ"   -> "f({" \o NL \o o \o "    a = 1" \o NL \o c \o "})"
    [] k = "arg"    -> "foo(" \o NL \o o \o "    a," \o NL \o "    b" \o NL \o c \o ")"
    [] k = "marg"   -> "local r = o:m(" \o NL \o o \o "    1, 'x'" \o NL \o c \o ")"
    [] k = "param"  -> "local function f(" \o NL \o o \o "    a," \o NL \o "    b" \o NL \o c \o ")" \o NL \o "    return a" \o NL \o "end"
    [] k = "lparam" -> "local g = function(" \o NL \o o \o "    a, ..." \o NL \o c \o ")" \o NL \o "end"
    [] k = "do"     -> "do" \o NL \o o \o "    f()" \o NL \o c \o "end"
    [] k = "if"     -> "if a then" \o NL \o o \o "    f()" \o NL \o c \o "else" \o NL \o o \o "    g()" \o NL \o c \o "end"
    [] k = "func"   -> "function M.g(a)" \o NL \o o \o "    return a" \o NL \o c \o "end"
    [] k = "lfunc"  -> "local h = function()" \o NL \o o \o "    f()" \o NL \o c \o "end"
    [] k = "while"  -> "while a do" \o NL \o o \o "    f()" \o NL \o c \o "end"
    [] k = "for"    -> "for i = 1, 2 do" \o NL \o o \o "    f(i)" \o NL \o c \o "end"
    [] k = "repeat" -> "repeat" \o NL \o o \o "    f()" \o NL \o c \o "until a"
BlankKinds == {"rec", "arr", "mod", "nest", "ret", "targ", "arg", "marg", "param", "lparam", "do", "if", "func", "lfunc",
               "while", "for", "repeat"}
BlankFill == {<<NL, "">>, <<"", NL>>, <<NL, NL>>, <<NL \o NL, "">>, <<"", NL \o NL>>, <<NL \o NL, NL \o NL>>}
BlankProgs == {BlankShell(k, f[1], f[2]) : k \in BlankKinds, f \in BlankFill}
BlankCfgs == {BaseCfg} \cup Corners

\* ---------------------------------------------------------------------------------------------
FInit ==
  /\ n = 1 /\ done = TRUE /\ lc = FALSE
  /\ \E fam \in Families :
       /\ kinds = <<fam>>
       /\ CASE fam = "quote" -> prog \in QuoteProgs /\ cfg \in QuoteCfgs
            [] fam = "comment" -> cfg \in CommentCfgs /\ prog \in ProgsFor(GroupProgs)
            [] fam = "doc" -> cfg \in DocCfgs /\ prog \in ProgsFor(DocProgs)
            [] fam = "lambda" -> cfg \in LambdaCfgs /\ prog \in LambdaProgs
            [] fam = "semi" -> cfg \in SemiCfgs /\ prog \in SemiProgs
            [] fam = "blank" -> cfg \in BlankCfgs /\ prog \in BlankProgs
FSpec == FInit /\ [][UNCHANGED vars]_vars
=============================================================================
