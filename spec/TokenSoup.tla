------------------------------ MODULE TokenSoup ------------------------------
(* Input generator and oracle for C01 (and the trace inputs of C02's progress part).

   An input is a sequence of lexemes, concatenated WITHOUT separators (white space and line ends are
   lexemes themselves).  Lexemes that cannot be written in a TLA+ string stand under a <NAME>; the
   harness concretises them (vh_parse.rs `concretise_one`); the byte length of every lexeme is stated
   here and checked against the concretised text by the harness (`n`), which binds the two tables.

   The property (C01) for an input i at any language level, doc parsing on or off:
        TreeText(parse(i)) = Text(i)   and the tree's tokens tile 0..Bytes(i) in order.
   TLC enumerates (one initial state per *prefix*; `Emit` prints the prefix extended by every lexeme
   of the alphabet in turn, i.e. |alphabet| cases per state -- this only batches TLC's output)
     * every sequence of <= ExhLen lexemes over the full alphabet `Lexemes`,
     * every sequence of exactly CoreLen lexemes over the `Core` alphabet (the lexemes that drive the
       statement/table/comment recovery paths),
     * for each length n in SampleLens: SampleCount random prefixes of n-1 lexemes (by -seed), each
       extended by every lexeme of the full alphabet. *)
EXTENDS Naturals, Sequences, FiniteSets, TLC, Json, Randomization

CONSTANTS ExhLen, CoreLen, SampleLens, SampleCount

Special == [x \in {"<NUL>", "<NL>", "<CR>", "<SP>", "<TAB>", "<DQUOTE>", "<BSLASH>"} |-> 1]
           @@ [x \in {"<EACUTE>"} |-> 2] @@ [x \in {"<BOM>"} |-> 3] @@ [x \in {"<EMOJI>"} |-> 4]

Lexemes ==
  { "a", "<SP>", "<NL>", "<CR>", "<NUL>", "<BOM>", "<EACUTE>",
    "--region", "--endregion", "--", "---@class A", "---@type", "---@param", "---|", "---@field",
    "--[[", "]]", "[[", "[=[", "]=]",
    "{", ",", "}", "[", "]", "=", "::", ";", "(", ")", ".", "...", ":",
    "do", "end", "then", "in", "local", "function", "if", "return", "until", "repeat", "else", "for",
    "<DQUOTE>", "1", "#!", "`", "?", "@", "<BSLASH>" }

Core ==
  { "a", "<SP>", "<NL>", "--region", "--endregion", "--", "---@class A", "---@type",
    "{", ",", "}", "=", ";", "(", ")", "do", "end", "then", "in", "local", "function", "if", "<NUL>", "::" }

ASSUME Core \subseteq Lexemes

Bytes(x) == IF x \in DOMAIN Special THEN Special[x] ELSE Len(x)
RECURSIVE TotalBytes(_)
TotalBytes(s) == IF s = <<>> THEN 0 ELSE Bytes(Head(s)) + TotalBytes(Tail(s))

VARIABLE soup     \* [p: prefix, core: BOOLEAN]

Prefixes ==
  {[p |-> q, core |-> FALSE] : q \in UNION {[1..n -> Lexemes] : n \in 0..(ExhLen - 1)}}
  \cup (IF CoreLen > 0 THEN {[p |-> q, core |-> TRUE] : q \in [1..(CoreLen - 1) -> Core]} ELSE {})
  \cup {[p |-> q, core |-> FALSE] : q \in UNION {RandomSubset(SampleCount, [1..(n - 1) -> Lexemes]) : n \in SampleLens}}

Init == soup \in Prefixes
Next == UNCHANGED soup
Spec == Init /\ [][Next]_soup

Case(s) == [l |-> s, n |-> TotalBytes(s)]
Cases(st) == {Case(st.p \o <<x>>) : x \in (IF st.core THEN Core ELSE Lexemes)}
             \cup (IF st.p = <<>> THEN {Case(<<>>)} ELSE {})

\* the oracle is the identity: expected tree text = the input; n = its byte length
Emit == PrintT(<<"CASES", ToJson(Cases(soup))>>)
=============================================================================
