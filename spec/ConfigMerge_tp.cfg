\* prefix-but-not-dotted-prefix sibling keys (a / ab, a.b / a.bb) in every spelling, 2 files, weight 3
SPECIFICATION Spec
CONSTANTS
  Variant = "fixed"
  Tier = "p"
  MaxFiles = 2
  MaxPerFile = 2
  MaxTotal = 3
  EmitCases = TRUE
INVARIANTS NoCrash LaterWins FlatIsNested Emit
