SPECIFICATION Spec
CONSTANTS
  Files = {"F2", "F5", "F7", "F8", "F9"}
  PatternSets = {"default", "main"}
  MapSets = {FALSE}
  StrictSets = {FALSE, TRUE}
  RootSets = {"w+lib", "w+o"}
  MaxSteps = 3
VIEW View
INVARIANTS TreeOk FuzzyOk NameOk Agree RemovedUnresolvable Emit
