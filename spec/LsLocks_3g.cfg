SPECIFICATION Spec
CONSTANTS
  K = 3
  Greedy = TRUE
VIEW view
INVARIANTS EmitBlocked NoReacquireEmit
