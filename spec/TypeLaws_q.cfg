SPECIFICATION Spec
CONSTANTS
  AtomNames = {"nil", "boolean", "true", "integer", "1", "string", "'s'", "table", "A", "Al", "E"}
  SibNames = {"integer", "'s'"}
  KeyNames = {"string"}
  RecShapes = {"x", "x,y?"}
  Depth2Kinds = {"union", "opt", "arr", "tup", "map", "rec", "fun", "gen"}
  WrapNames = {"integer"}
INVARIANTS WellFormed Emit
