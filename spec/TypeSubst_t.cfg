SPECIFICATION Spec
CONSTANTS
  AtomNames = {"nil", "boolean", "integer", "number", "string", "true", "false", "1", "-1", "s", "sp", "A", "B", "Al", "E"}
  SibNames = {"integer", "s", "nil"}
  KeyNames = {"string", "integer"}
  ArgKinds = {"union", "opt", "arr", "map", "rec", "tup", "fun0", "gen"}
  TemplateNames = {"id", "elem", "wrap", "mk", "val", "key", "unopt", "call", "pair", "same", "swap", "nest", "optarr", "optid", "optwrap", "optelem", "optval", "unoptarr", "mkopt"}
  Depth3From = {"arr", "map", "opt"}
  Depth3Cons = {"arr", "opt", "map"}
  UnionOfContainers = TRUE
  SecondArgKinds = {"opt", "union"}
INVARIANTS Closed IdLaw ElemWrap OptLaw ExpectedWf NoMemberDropped Emit
