------------------------------ MODULE LsResults ------------------------------
(* C26: result predicates of the LSP session, evaluated by TLC on responses recorded from the real server.

   The records (file named by the environment variable RESULTS, one JSON object per line) are the
   responses of the in-process session, normalised by the driver to integers:
     lines   UTF-16 length of every line of the document AT REQUEST TIME (LSP line splitting)
     kind    which structure the record carries:
       "ranges"      rs  = << <<l0,c0,l1,c1>> ... >>            every Range / Location / Position of a result
       "semtok"      data = << ints >>, ntypes, nmods, multiline semanticTokens/full + the advertised legend + whether the
                                                                client of that session announced multilineTokenSupport
       "symbols"     nodes = << <<parent, r, sel>> ... >>       DocumentSymbol tree, parent = index or 0
       "folding"     folds = << <<startLine, endLine>> ... >>
       "selection"   chains = << << r_inner, r_parent, ... >> ... >>
       "completion"  cursor = <<l,c>>, edits = << r ... >>      main textEdit of every item
       "edits"       files = << << r ... >> ... >>              text edits grouped by file (WorkspaceEdit,
                                                                formatting); only the requested document
                                                                is judged for InDoc
   Init picks a record; the "invariant" Emit prints which predicates fail for it.  The semantic-token
   predicates (decoder, Ordered, NonOverlapping) are those of SemTokens.tla, where TLC has shown that they
   hold exactly when the producers pushed pairwise disjoint ranges.                                   *)
EXTENDS Naturals, Sequences, FiniteSets, TLC, Json, IOUtils

ASSUME TLCSet(2, ndJsonDeserialize(IOEnv.RESULTS))
Recs == TLCGet(2)

VARIABLE i
ST == INSTANCE SemTokens WITH W <- 1, NL <- 1, MaxPush <- 0, Big <- 9999, pushes <- <<>>

Init == i \in 1..Len(Recs)
Next == UNCHANGED i
Spec == Init /\ [][Next]_i

R == Recs[i]
Lines == R.lines

Le(p, q) == p[1] < q[1] \/ (p[1] = q[1] /\ p[2] <= q[2])
Lt(p, q) == p[1] < q[1] \/ (p[1] = q[1] /\ p[2] < q[2])
S(r) == <<r[1], r[2]>>
E(r) == <<r[3], r[4]>>
InDoc(p) == p[1] < Len(Lines) /\ p[2] <= Lines[p[1] + 1]
RangeOK(r) == InDoc(S(r)) /\ InDoc(E(r)) /\ Le(S(r), E(r))
\* LuaDocument::get_document_lsp_range: "the whole document" ends at (line count, 0), one line past the end
DocEndOK(r) == RangeOK(r) \/ (InDoc(S(r)) /\ E(r) = <<Len(Lines), 0>>)
Contains(outer, inner) == Le(S(outer), S(inner)) /\ Le(E(inner), E(outer))
DisjointR(a, b) == Le(E(a), S(b)) \/ Le(E(b), S(a))
All(s, P(_)) == \A k \in 1..Len(s) : P(s[k])

\* ---------------------------------------------------------------- semantic tokens
Groups == Len(R.data) \div 5
Enc == [k \in 1..Groups |-> [dl |-> R.data[5 * k - 4], ds |-> R.data[5 * k - 3], len |-> R.data[5 * k - 2]]]
Toks == ST!Decode(Enc, 0, 0)
\* A client WITHOUT multilineTokenSupport must get tokens that lie inside their line (UTF-16 length without the
\* terminator).  A client WITH it may get a token that runs over line ends: it must start inside its line and end
\* inside the document (a line end counts as at most 2 units).
RECURSIVE Rest(_)
Rest(l) == IF l >= Len(Lines) THEN 0 ELSE Lines[l + 1] + 2 + Rest(l + 1)
TokInLine(t) == t.line < Len(Lines) /\ t.col + t.len <= Lines[t.line + 1]
Multiline == "multiline" \in DOMAIN R /\ R.multiline          \* absent = not announced
TokInDoc(t) == IF Multiline THEN t.line < Len(Lines) /\ t.col <= Lines[t.line + 1] /\ t.col + t.len <= Rest(t.line)
                              ELSE TokInLine(t)
RECURSIVE Pow2(_)
Pow2(n) == IF n = 0 THEN 1 ELSE 2 * Pow2(n - 1)

\* ---------------------------------------------------------------- predicates per kind
Checks ==
  CASE R.kind = "ranges" ->
         << <<"InDoc", All(R.rs, RangeOK)>>, <<"InDocExceptDocEnd", All(R.rs, DocEndOK)>> >>
    [] R.kind = "semtok" ->
         << <<"Shape", Len(R.data) % 5 = 0>>,
            <<"Ordered", ST!Ordered(Toks)>>,
            <<"NonOverlapping", ST!NonOverlapping(Toks)>>,
            <<"InDoc", All(Toks, TokInDoc)>>,
            <<"InDocExceptBig", All(Toks, LAMBDA t : TokInDoc(t) \/ (t.len = 9999 /\ t.line < Len(Lines)))>>,
            <<"Legend", \A k \in 1..Groups : R.data[5 * k - 1] < R.ntypes /\ R.data[5 * k] < Pow2(R.nmods)>> >>
    [] R.kind = "symbols" ->
         << <<"InDoc", All(R.nodes, LAMBDA n : RangeOK(n[2]) /\ RangeOK(n[3]))>>,
            <<"SelectionInRange", All(R.nodes, LAMBDA n : Contains(n[2], n[3]))>>,
            <<"Nested", All(R.nodes, LAMBDA n : n[1] = 0 \/ Contains(R.nodes[n[1]][2], n[2]))>> >>
    [] R.kind = "folding" ->
         << <<"StartLeEnd", All(R.folds, LAMBDA f : f[1] <= f[2])>>,
            <<"InDoc", All(R.folds, LAMBDA f : f[2] < Len(Lines))>> >>
    [] R.kind = "selection" ->
         << <<"InDoc", All(R.chains, LAMBDA c : All(c, RangeOK))>>,
            <<"StrictlyGrow", All(R.chains, LAMBDA c : \A k \in 1..(Len(c) - 1) :
                                   Contains(c[k + 1], c[k]) /\ c[k + 1] # c[k])>> >>
    [] R.kind = "completion" ->
         << <<"InDoc", All(R.edits, RangeOK)>>,
            <<"SingleLine", All(R.edits, LAMBDA r : r[1] = r[3])>>,
            <<"ContainsCursor", All(R.edits, LAMBDA r : Le(S(r), R.cursor) /\ Le(R.cursor, E(r)))>> >>
    [] R.kind = "edits" ->
         << <<"InDoc", All(R.files[1], RangeOK)>>, <<"InDocExceptDocEnd", All(R.files[1], DocEndOK)>>,
            <<"Disjoint", All(R.files, LAMBDA es : \A a \in 1..Len(es) : \A b \in 1..Len(es) :
                                a < b => DisjointR(es[a], es[b]))>> >>

Failing == SelectSeq(Checks, LAMBDA c : ~c[2])
Emit == PrintT(<<"RES", ToJson([i |-> i, fails |-> [k \in 1..Len(Failing) |-> Failing[k][1]]])>>)
=============================================================================
