SPECIFICATION Spec
CONSTANTS
  NPaths = 3
  Contents = {"ClsDoc", "ClsField", "GInt", "ReqB"}
  Ops = {"update", "unset", "remove"}
  MaxSteps = 3
  EditDist = 3
  Batch = FALSE
  EmitSel = "removal"
VIEW View
INVARIANTS ReindexIsIdeal NoLeak Emit
