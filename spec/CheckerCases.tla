---------------------------- MODULE CheckerCases ----------------------------
(* Black-box cases for the real `emmylua_check` binary (C36), with the expected exit status and the
   expected per-file report computed by the same declarative operators (CheckerRef) that every
   interleaving of the operational model Checker.tla is proved (by TLC) to end in.

   A workspace has three main files a.lua, b.lua, sub/c.lua and a library file lib/l.lua (library root
   configured in .emmyrc.json).  A file is a sequence of one-line snippets; snippet i sits on line i-1
   and yields exactly one diagnostic of a known code on that line:
       "U"  print(<undefined global>)                       undefined-global        default error
       "X"  same, after multi-byte characters on the line  undefined-global        default error
       "W"  local _a, _b = 1                                unbalanced-assignments  default warning
       "N"  local <unused name> = 1                         unused                  default hint
       "S"  unfinished string literal                       syntax-error            default error
   (the driver calibrates this table against the analyzer before judging the binary).
   .emmyrc.json may override the severity of each code (`ovr[code]`, 0 = no override) and may switch
   diagnostics off (`enable = FALSE`: diagnose_file returns None for every file).
   The command line chooses --severity (flt, 0 = absent), --warnings-as-errors, the output format and
   for json/sarif the destination (stdout or --output file).

   One initial state per case; `Emit` prints it with its expectation. *)
EXTENDS Naturals, Sequences, FiniteSets, TLC, Json, CheckerRef

CONSTANTS ContentsA, ContentsB, ContentsC, ContentsL,  \* candidate contents per file
          OvrUG, OvrUA, OvrUN, OvrSE,                  \* candidate overrides per code (subsets of 0..4)
          Enables, Filters, Outs

VARIABLES ws, ovr, enable, flt, wae, out

vars == <<ws, ovr, enable, flt, wae, out>>

MainFiles == {"a", "b", "c"}
AllFiles == MainFiles \cup {"l"}

CodeOf(k) == CASE k = "U" -> "undefined-global" [] k = "X" -> "undefined-global"
               [] k = "W" -> "unbalanced-assignments" [] k = "N" -> "unused" [] k = "S" -> "syntax-error"
DefaultSev(c) == CASE c = "undefined-global" -> 1 [] c = "unbalanced-assignments" -> 2
                   [] c = "unused" -> 4 [] c = "syntax-error" -> 1
Codes == {"undefined-global", "unbalanced-assignments", "unused", "syntax-error"}

\* content alphabets for the .cfg files
CA_Q == {<<"U", "N">>, <<"N", "W", "N">>}
CB_Q == {<<"W", "X">>, <<"S">>}
CC_Q == {<<>>}
CL_Q == {<<"U", "W">>}
CA_T == {<<"U", "N">>, <<"N", "W", "N">>, <<>>}
CB_T == {<<"W", "X">>, <<"S">>, <<"U", "U">>}
CC_T == {<<>>, <<"X">>}
CL_T == {<<"U", "W">>}

Init == /\ ws \in {[a |-> ca, b |-> cb, c |-> cc, l |-> cl] :
                      ca \in ContentsA, cb \in ContentsB, cc \in ContentsC, cl \in ContentsL}
        /\ ovr \in {("undefined-global" :> ug) @@ ("unbalanced-assignments" :> ua) @@
                    ("unused" :> un) @@ ("syntax-error" :> se) :
                      ug \in OvrUG, ua \in OvrUA, un \in OvrUN, se \in OvrSE}
        /\ enable \in Enables
        /\ (enable \/ \A c \in Codes : ovr[c] = 0)      \* overrides are irrelevant when nothing is diagnosed
        /\ flt \in Filters
        /\ wae \in BOOLEAN
        /\ out \in Outs          \* "text" | "json" | "json-file" | "sarif" | "sarif-file"
Next == UNCHANGED vars
Spec == Init /\ [][Next]_vars

\* ---- what the analysis returns (the "known diagnostics") -------------------------------------
SevOf(c) == IF ovr[c] = 0 THEN DefaultSev(c) ELSE ovr[c]
Diags(f) == [i \in 1..Len(ws[f]) |-> [line |-> i - 1, code |-> CodeOf(ws[f][i]), sev |-> SevOf(CodeOf(ws[f][i]))]]
SevSeq(l) == [i \in DOMAIN l |-> l[i].sev]
\* result of diagnose_file: None when diagnostics are disabled; library files are never checked
IsSome(f) == enable /\ f \in MainFiles

\* ---- expected report (CheckerRef) -------------------------------------------------------------
Kept(f) == SelectSeq(Diags(f), LAMBDA d : Allows(flt, d.sev))
ExpExit == ExitOfLists({SevSeq(Diags(f)) : f \in {g \in MainFiles : IsSome(g)}}, flt, wae)

\* the filter really is the reference filter on severities
FilterAgrees == \A f \in AllFiles : SevSeq(Kept(f)) = KeepSevs(SevSeq(Diags(f)), flt)
\* exit status can be read off the kept diagnostics
ExitFromKept == (ExpExit = 1) <=> \E f \in MainFiles : IsSome(f) /\ \E i \in DOMAIN Kept(f) : IsFailing(Kept(f)[i].sev, wae)

\* ---- the cross product {--severity} x {--warnings-as-errors} x {highest severity present} ----------
\* (strengthened after seeded review.)  The property says the exit status is decided by the diagnostics that
\* are REPORTED, i.e. after the --severity filter.  An implementation that decides before the filter differs
\* from the reference exactly where the strongest diagnostic of the workspace lies BELOW the filter while it
\* would still fail the run: the generator therefore labels every case with its cell <<flt, wae, top>> and
\* with `decides` (the filter changes the exit status); the driver must run every cell, and every `decides`
\* cell in every output format.  TLC checks that the configured alphabets realise every cell.
NoSev == 5                                   \* "no diagnostic at all" (empty workspace or enable = FALSE)
SevOfO(o, c) == IF o[c] = 0 THEN DefaultSev(c) ELSE o[c]
SevsOfWs(w, o, e) == IF e THEN {SevOfO(o, CodeOf(w[f][i])) : <<f, i>> \in {<<g, j>> \in MainFiles \X (1..8) : j <= Len(w[g])}}
                          ELSE {}
TopOfWs(w, o, e) == LET S == SevsOfWs(w, o, e) IN IF S = {} THEN NoSev ELSE CHOOSE s \in S : \A t \in S : s <= t
Top == TopOfWs(ws, ovr, enable)
Tops == 1..NoSev

SomeLists == {SevSeq(Diags(f)) : f \in {g \in MainFiles : IsSome(g)}}
ExitUnfiltered == ExitOfLists(SomeLists, 0, wae)       \* what a decision taken BEFORE the filter would give
Decides == ExitUnfiltered # ExpExit                    \* the filter decides the exit status of this case

\* Top is the strongest severity really present in what diagnose_file returns
TopAgrees == /\ (Top = NoSev) <=> (\A l \in SomeLists : l = <<>>)
             /\ Top # NoSev => /\ \E l \in SomeLists : \E i \in DOMAIN l : l[i] = Top
                               /\ \A l \in SomeLists : \A i \in DOMAIN l : l[i] >= Top
\* the exit status is a function of the cell alone: 1 iff the strongest diagnostic passes the filter and fails
ExitOfCell(f, w, t) == IF t # NoSev /\ Allows(f, t) /\ IsFailing(t, w) THEN 1 ELSE 0
ExitByCell == ExpExit = ExitOfCell(flt, wae, Top)
\* the only cell in which filtering first / deciding first differ: warnings only, promoted, filtered out
DecidesCell == Decides <=> (flt = 1 /\ wae /\ Top = 2)

\* every cell of Filters x BOOLEAN x Tops is realised by the configured alphabets (flt and wae are chosen
\* independently of the workspace in Init, so covering every value of Top is enough)
OvrSpace == {("undefined-global" :> ug) @@ ("unbalanced-assignments" :> ua) @@ ("unused" :> un) @@ ("syntax-error" :> se) :
               ug \in OvrUG, ua \in OvrUA, un \in OvrUN, se \in OvrSE}
WsSpace == {[a |-> ca, b |-> cb, c |-> cc, l |-> cl] :
              ca \in ContentsA, cb \in ContentsB, cc \in ContentsC, cl \in ContentsL}
ASSUME CrossCovered ==
  \A t \in Tops : \E w \in WsSpace, o \in OvrSpace, e \in Enables :
      (e \/ \A c \in Codes : o[c] = 0) /\ TopOfWs(w, o, e) = t
ASSUME FiltersComplete == Filters = FilterVals

Emit == PrintT(<<"CASE", ToJson([
            ws |-> ws, ovr |-> ovr, enable |-> enable, flt |-> flt, wae |-> wae, out |-> out,
            some |-> [f \in MainFiles |-> IsSome(f)],
            diags |-> [f \in AllFiles |-> Diags(f)],
            kept |-> [f \in MainFiles |-> IF IsSome(f) THEN Kept(f) ELSE <<>>],
            top |-> Top, decides |-> Decides, exit_unfiltered |-> ExitUnfiltered,
            exit |-> ExpExit])>>)
=============================================================================
