SPECIFICATION Spec
CONSTANTS
  NPaths = 3
  Contents = {"Alias", "DiagOff", "Undef", "ClsDoc", "ReqB"}
  Ops = {"update", "unset", "remove", "reindex"}
  MaxSteps = 3
  EditDist = 3
  Batch = FALSE
  EmitSel = "reindex"
VIEW View
INVARIANTS ReindexIsIdeal NoLeak Emit
