SPECIFICATION Spec
CONSTANTS
  W = 2
  NL = 2
  MaxPush = 3
  Big = 99
INVARIANTS OutputInDocument
