SPECIFICATION Spec
CONSTANTS
  AtomNames = {"nil", "boolean", "integer", "string", "true", "1", "s", "A", "Al", "E"}
  SibNames = {"integer", "s"}
  KeyNames = {"string"}
  ArgKinds = {"union", "opt", "arr", "map", "fun0"}
  TemplateNames = {"id", "elem", "wrap", "mk", "val", "unopt", "call", "pair", "same", "swap", "optid", "optelem", "optval", "nest"}
  Depth3From = {"arr"}
  Depth3Cons = {"arr", "opt"}
  UnionOfContainers = TRUE
  SecondArgKinds = {"opt"}
INVARIANTS Closed IdLaw ElemWrap OptLaw ExpectedWf NoMemberDropped Emit
