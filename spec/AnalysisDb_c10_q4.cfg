SPECIFICATION Spec
CONSTANTS
  NPaths = 4
  Contents = {"MetaX", "TabX", "UseTabX", "ClsTab"}
  Ops = {"unset", "remove"}
  MaxSteps = 1
  EditDist = 4
  Batch = FALSE
  EmitSel = "removal"
VIEW View
INVARIANTS ReindexIsIdeal NoLeak Emit
