SPECIFICATION Spec
CONSTANTS
  ContentsA <- CA_Q
  ContentsB <- CB_Q
  ContentsC <- CC_Q
  ContentsL <- CL_Q
  OvrUG = {0, 3}
  OvrUA = {0, 4}
  OvrUN = {0, 2}
  OvrSE = {0, 4}
  Enables = {TRUE, FALSE}
  Filters = {0, 1, 2, 3, 4}
  Outs = {"text", "json", "json-file", "sarif", "sarif-file"}
INVARIANTS FilterAgrees ExitFromKept TopAgrees ExitByCell DecidesCell Emit
