SPECIFICATION Spec
CONSTANTS
  Variant = "fixed"
  Tier = "q"
  MaxFiles = 2
  MaxPerFile = 2
  MaxTotal = 3
  EmitCases = TRUE
INVARIANTS NoCrash LaterWins FlatIsNested Emit
