SPECIFICATION Spec
CONSTANTS
  Files = {f1, f2}
  Lists <- ListsQ
  Caps = {1, 2}
  Filters = {0, 1}
  AllowPanic = TRUE
INVARIANTS TypeOK ExitCorrect
PROPERTIES Terminates
CHECK_DEADLOCK TRUE
