SPECIFICATION Spec
CONSTANT Script <- TraceScript
INVARIANT EmitBrief
POSTCONDITION Accepted
