SPECIFICATION Spec
CONSTANTS
  Files = {"F1", "F2", "F3", "F4", "F6", "F8"}
  PatternSets = {"default", "luaonly", "main"}
  MapSets = {FALSE, TRUE}
  StrictSets = {FALSE, TRUE}
  RootSets = {"w", "w+lib"}
  MaxSteps = 4
VIEW View
INVARIANTS TreeOk FuzzyOk NameOk Agree RemovedUnresolvable Emit
