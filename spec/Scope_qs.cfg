\* simulation part: random walks to 8 items / nesting 3; TLC evaluates the invariants (Agree!) on every
\* successor of every visited state, Emit prints the sampled ones (hash mod EmitMod)
SPECIFICATION Spec
CONSTANTS
  NameSeq <- NamesAB
  Rich = TRUE
  MaxItems = 8
  MaxDepth = 3
  MinEmit = 3
  EmitMod = 5
  ForNumKind = "ForRange"
  LoaOrder = "reverse"
  CheckAgree = TRUE
INVARIANTS SameSites Agree Emit
