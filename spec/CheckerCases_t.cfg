SPECIFICATION Spec
CONSTANTS
  ContentsA <- CA_T
  ContentsB <- CB_T
  ContentsC <- CC_T
  ContentsL <- CL_T
  OvrUG = {0, 2, 3, 4}
  OvrUA = {0, 1, 3}
  OvrUN = {0, 1, 3}
  OvrSE = {0, 4}
  Enables = {TRUE, FALSE}
  Filters = {0, 1, 2, 3, 4}
  Outs = {"text", "json", "json-file", "sarif", "sarif-file"}
INVARIANTS FilterAgrees ExitFromKept TopAgrees ExitByCell DecidesCell Emit
