SPECIFICATION Spec
CONSTANTS
  Variant = "fixed"
  Tier = "s"
  MaxFiles = 3
  MaxPerFile = 2
  MaxTotal = 3
  EmitCases = TRUE
INVARIANTS NoCrash LaterWins FlatIsNested Emit
