SPECIFICATION Spec
CONSTANTS
  MaxItems = 4
  Levels = {"Lua5.4"}
  TypeDepth = 0
  Randomised = FALSE
INVARIANTS Bounded CorruptTargetsExist
