\* the design that satisfies C24, every phase, asynchronous wire: exhaustive
SPECIFICATION Spec
CONSTANTS
  MaxMsgs = 5
  MaxReqs = 3
  StartPhases = {"pre", "init", "ready"}
  Kinds = {"req", "cancel", "notif", "resp", "initialize", "initialized", "shutdown", "exit"}
  BadParams = {"error"}
  Panic = {"error"}
  BadInit = {"error"}
  PostShutdown = {"error"}
  CancelDesign = "flag"
  SyncWire = FALSE
VIEW view
INVARIANTS TypeOK ExactlyOne AtMostOne NoOrphan NoLeak CancelAnswer NeverDead
