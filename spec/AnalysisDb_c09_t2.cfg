SPECIFICATION Spec
CONSTANTS
  NPaths = 3
  Contents = {"GInt", "GStr", "Mod", "Enum", "UseFoo"}
  Ops = {"update", "unset", "remove", "reindex"}
  MaxSteps = 3
  EditDist = 3
  Batch = FALSE
  EmitSel = "reindex"
VIEW View
INVARIANTS ReindexIsIdeal NoLeak Emit
