\* C20: the full decision table (384 chain rows + severity + globals rows), one initial state per row
SPECIFICATION SpecCfg
CONSTANTS
  MaxRows = 0
  MaxDepth = 0
  EmitMod = 1
  Overlap = "proper"
  EmptyBlockOwner = "parent"
  CheckAgree = TRUE
  TwoComments = FALSE
INVARIANTS ChainDesign EmitCfg
