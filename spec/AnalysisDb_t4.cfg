SPECIFICATION Spec
CONSTANTS
  NPaths = 3
  Contents = {"ClsDoc", "ClsDoc2", "ClsPlain", "ClsField", "GInt", "GStr", "ReqB", "Mod", "Alias", "Enum", "DiagOff", "Undef", "UseFoo", "ClsSub"}
  Ops = {"update", "reindex"}
  MaxSteps = 2
  EditDist = 1
  Batch = FALSE
  EmitSel = "same"
VIEW View
INVARIANTS ReindexIsIdeal NoLeak C08_Model Emit
