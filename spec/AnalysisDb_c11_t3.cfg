SPECIFICATION Spec
CONSTANTS
  NPaths = 3
  Contents = {"ExpX", "GReqA", "GReqB", "UseLV"}
  Ops = {}
  MaxSteps = 0
  EditDist = 3
  Batch = TRUE
  EmitSel = "all"
VIEW View
INVARIANTS Confluent Emit
