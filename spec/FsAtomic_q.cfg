SPECIFICATION Spec
INVARIANT Emit
POSTCONDITION Accepted
