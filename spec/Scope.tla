------------------------------- MODULE Scope -------------------------------
(* Lexical scoping of Lua names (C13, C14).

   A *program* is a sequence of items over a small name alphabet; block structure is kept well formed
   by the generator (a stack of open blocks).  Item i occupies the abstract positions i*10 .. i*10+9;
   every name occurrence (declaration or use) sits at a fixed slot of its item, so positions order
   the occurrences exactly as the concrete text does.

     local   a = e          decl a @1, e @3            local2  a, b = e, 0    decls @1 @2, e @4
     assign  a = e          use a @0, e @2             use     print(a)       use a @1
     localfunc local function a(b)   decl a @2, param b @4, body block from @5
     func    function a(b)  use a @1, param b @3, body block from @4
     do / while e do / if e then / else / repeat       e @1, block from @1 (do, else) or @3
     until e                e @1
     fornum  for a = e, 2 do         decl a @1, e @3, block from @6
     forin   for a, b in e do        decls @1 @2, e @4, block from @6
     end
   An expression e at base x is a literal, a name (use @x) or the closure
     function(p) return n end        closure @x, param p @x+1, block x+2..x+4, use n @x+3.

   Two independent definitions of "which declaration does this use denote":

   * Reference(prog): environment-passing walk written from the Lua manual (3.3.7, 3.5): the scope of
     a local begins AFTER its declaration statement and lasts to the end of the innermost block;
     `local function f` is in scope in its own body; loop variables are local to the loop BODY (the
     header expressions are evaluated before); the `until` condition sees the body's locals; in
     `local a, a` the last one is the visible one; parameters are locals of the function body.

   * Transcribed(prog): transcription of the analyser's declaration tree
     (crates/emmylua_code_analysis/src/compilation/analyzer/decl/{mod,stats,exprs}.rs builds it,
     db_index/declaration/decl_tree.rs searches it): scopes with kinds, ranges and ordered children,
     find_scope, visit_visible_decls (entry / non-entry special cases for LocalOrAssignStat, Repeat,
     ForRange), search_scope_children (right-most child strictly before the position, reverse walk),
     visit_child_scope.  The walk resolves each name at the moment the analyser visits it (on the
     partially built tree), as analyze_name_expr does.  CONSTANTS select the variants of the two
     places where the pinned tree differed from Lua and was corrected (see DESIGN.d/C13.md); the third
     difference (a closure inside a for header sees the loop variables) is the named waiver KF_HeaderClosure.

   TLC enumerates programs (exhaustively to MaxItems, or by simulation) and prints each with both
   maps; the harness replays every program into SemanticModel::find_decl and compares with
   Reference (the oracle) and with Transcribed (divergence = the transcription no longer explains the
   code).  Agree (Transcribed = Reference) is checked by TLC as an invariant when CheckAgree = TRUE:
   a design-level proof, within the bound, that the algorithm as transcribed implements Lua scoping. *)
EXTENDS Naturals, Sequences, FiniteSets, TLC, Json

CONSTANTS NameSeq,      \* the name alphabet as a sequence, e.g. <<"a", "b">>
          Rich,         \* TRUE: expressions include closures `function(p) return n end`
          MaxItems,     \* bound on the number of items appended by the generator (closers are added)
          MaxDepth,     \* bound on block nesting
          MinEmit,      \* only programs with at least this many generated items are printed
          EmitMod,      \* print only programs whose structural hash is 0 modulo EmitMod (1 = all); used to
                        \* thin out simulation runs, where TLC evaluates the invariants on every successor
          ForNumKind,   \* scope kind created for a numeric for: "Normal" (pinned tree) | "ForRange"
          LoaOrder,     \* visit_child_scope order inside a LocalOrAssignStat: "forward" (pinned) | "reverse"
          CheckAgree    \* TRUE: Agree is enforced as a TLC invariant

VARIABLES prog, open
vars == <<prog, open>>

NamesAB == <<"a", "b">>   \* values for NameSeq (a .cfg file cannot write a tuple)
NamesA == <<"a">>
None == "-"
Names == {NameSeq[i] : i \in 1..Len(NameSeq)}
Max(S) == CHOOSE x \in S : \A y \in S : y <= x
Base(i) == i * 10
BIG == 1000000

\* ------------------------------------------------------------------------------------------
\* program alphabet
\* ------------------------------------------------------------------------------------------
Lit == [t |-> "lit", n |-> None, p |-> None]
NameE(x) == [t |-> "name", n |-> x, p |-> None]
SimpleExprs == {Lit} \cup {NameE(x) : x \in Names}
FnExprs == {[t |-> "fn", n |-> x, p |-> q] : x \in Names, q \in Names \cup {None}}
Exprs == IF Rich THEN SimpleExprs \cup FnExprs ELSE SimpleExprs

It(k, a, b, e) == [k |-> k, a |-> a, b |-> b, e |-> e]
Stats == {It("local", a, None, e) : a \in Names, e \in Exprs}
    \cup {It("local2", a, b, e) : a \in Names, b \in Names, e \in SimpleExprs}
    \cup {It("assign", a, None, e) : a \in Names, e \in Exprs}
    \cup {It("use", a, None, Lit) : a \in Names}
Openers == {It("localfunc", a, b, Lit) : a \in Names, b \in Names \cup {None}}
    \cup {It("func", a, b, Lit) : a \in Names, b \in Names \cup {None}}
    \cup {It("do", None, None, Lit), It("repeat", None, None, Lit)}
    \cup {It("while", None, None, e) : e \in SimpleExprs}
    \cup {It("if", None, None, e) : e \in SimpleExprs}
    \cup {It("fornum", a, None, e) : a \in Names, e \in Exprs}
    \cup {It("forin", a, b, e) : a \in Names, b \in Names \cup {None}, e \in Exprs}
ElseItem == It("else", None, None, Lit)
EndItem == It("end", None, None, Lit)
Untils == {It("until", None, None, e) : e \in Exprs}

OpenerKinds == {"localfunc", "func", "do", "repeat", "while", "if", "fornum", "forin"}
CloserKinds == {"end", "until"}

\* ------------------------------------------------------------------------------------------
\* generator: append items, keep nesting well formed
\* ------------------------------------------------------------------------------------------
Init == prog = <<>> /\ open = <<>>

AddStat == \E it \in Stats : prog' = Append(prog, it) /\ open' = open
AddOpener == /\ Len(open) < MaxDepth
             /\ \E it \in Openers : prog' = Append(prog, it) /\ open' = <<it.k>> \o open
AddElse == /\ open # <<>> /\ Head(open) = "if"
           /\ prog' = Append(prog, ElseItem) /\ open' = <<"else">> \o Tail(open)
AddEnd == /\ open # <<>> /\ Head(open) # "repeat"
          /\ prog' = Append(prog, EndItem) /\ open' = Tail(open)
AddUntil == /\ open # <<>> /\ Head(open) = "repeat"
            /\ \E it \in Untils : prog' = Append(prog, it) /\ open' = Tail(open)

Next == /\ Len(prog) < MaxItems
        /\ (AddStat \/ AddOpener \/ AddElse \/ AddEnd \/ AddUntil)
Spec == Init /\ [][Next]_vars

\* Close every open block so that each reachable state denotes a complete program: a pending `repeat` is
\* closed by `until <first name>` (the condition sees the body's locals), everything else by `end`; then
\* one probe `print(x)` per name follows, so that a declaration leaking out of any block is observed.
RECURSIVE Closers(_)
Closers(o) == IF o = <<>> THEN <<>>
              ELSE <<IF Head(o) = "repeat" THEN It("until", None, None, NameE(NameSeq[1])) ELSE EndItem>>
                   \o Closers(Tail(o))
Probes == [i \in 1..Len(NameSeq) |-> It("use", NameSeq[i], None, Lit)]
Program == prog \o Closers(open) \o Probes

\* ------------------------------------------------------------------------------------------
\* Reference: environment-passing walk (Lua manual)
\* ------------------------------------------------------------------------------------------
\* an environment maps each name to the position of the visible local declaration, 0 = global
Fresh == "z"    \* a name that occurs in no generated program (used by RenameIso)
GlobalEnv == [x \in Names \cup {Fresh} |-> 0]
Bind(env, x, pos) == IF x = None THEN env ELSE [env EXCEPT ![x] = pos]

ExprRef(e, b, env) ==
  CASE e.t = "lit" -> {}
    [] e.t = "name" -> {<<b, env[e.n]>>}
    [] e.t = "fn" -> {<<b + 3, Bind(env, e.p, b + 1)[e.n]>>}

\* stk: sequence of environments, head = innermost block; res: set of <<use position, declaration>>
RECURSIVE RefWalk(_, _, _, _)
RefWalk(p, i, stk, res) ==
  IF i > Len(p) THEN res ELSE
  LET it == p[i]
      b == Base(i)
      env == Head(stk)
      rest == Tail(stk)
  IN CASE it.k = "local" ->
            RefWalk(p, i + 1, <<Bind(env, it.a, b + 1)>> \o rest, res \cup ExprRef(it.e, b + 3, env))
       [] it.k = "local2" ->
            RefWalk(p, i + 1, <<Bind(Bind(env, it.a, b + 1), it.b, b + 2)>> \o rest,
                    res \cup ExprRef(it.e, b + 4, env))
       [] it.k = "assign" ->
            RefWalk(p, i + 1, stk, res \cup {<<b, env[it.a]>>} \cup ExprRef(it.e, b + 2, env))
       [] it.k = "use" ->
            RefWalk(p, i + 1, stk, res \cup {<<b + 1, env[it.a]>>})
       [] it.k = "localfunc" ->
            LET env1 == Bind(env, it.a, b + 2) IN
            RefWalk(p, i + 1, <<Bind(env1, it.b, b + 4), env1>> \o rest, res)
       [] it.k = "func" ->
            RefWalk(p, i + 1, <<Bind(env, it.b, b + 3)>> \o stk, res \cup {<<b + 1, env[it.a]>>})
       [] it.k \in {"do", "repeat"} ->
            RefWalk(p, i + 1, <<env>> \o stk, res)
       [] it.k \in {"while", "if"} ->
            RefWalk(p, i + 1, <<env>> \o stk, res \cup ExprRef(it.e, b + 1, env))
       [] it.k = "else" ->
            RefWalk(p, i + 1, <<Head(rest)>> \o rest, res)
       [] it.k = "until" ->
            RefWalk(p, i + 1, rest, res \cup ExprRef(it.e, b + 1, env))
       [] it.k = "fornum" ->
            RefWalk(p, i + 1, <<Bind(env, it.a, b + 1)>> \o stk, res \cup ExprRef(it.e, b + 3, env))
       [] it.k = "forin" ->
            RefWalk(p, i + 1, <<Bind(Bind(env, it.a, b + 1), it.b, b + 2)>> \o stk,
                    res \cup ExprRef(it.e, b + 4, env))
       [] it.k = "end" ->
            RefWalk(p, i + 1, rest, res)

Reference(p) == RefWalk(p, 1, <<GlobalEnv>>, {})

\* ------------------------------------------------------------------------------------------
\* Transcribed: the declaration tree as the analyser builds and searches it
\* ------------------------------------------------------------------------------------------
\* T = [sc : Seq(scope), dc : Seq(decl), stk : Seq(scope id) (head = current), refs : set of pairs]
\* scope = [kind, s, e, par, ch]  with ch : Seq(<<"s", scope id>> | <<"d", decl id>>); range = [s, e)
\* decl  = [name, pos, loc]

NewScope(T, kind, s, e) ==
  LET id == Len(T.sc) + 1
      par == IF T.stk = <<>> THEN 0 ELSE Head(T.stk)
      sc1 == Append(T.sc, [kind |-> kind, s |-> s, e |-> e, par |-> par, ch |-> <<>>])
      sc2 == IF par = 0 THEN sc1 ELSE [sc1 EXCEPT ![par].ch = Append(@, <<"s", id>>)]
  IN [T EXCEPT !.sc = sc2, !.stk = <<id>> \o @]

PopScope(T) == [T EXCEPT !.stk = Tail(@)]

AddDecl(T, name, pos, loc) ==
  IF name = None THEN T ELSE
  LET id == Len(T.dc) + 1
      top == Head(T.stk)
  IN [T EXCEPT !.dc = Append(@, [name |-> name, pos |-> pos, loc |-> loc]),
               !.sc[top].ch = Append(@, <<"d", id>>)]

ChildPos(T, c) == IF c[1] = "d" THEN T.dc[c[2]].pos ELSE T.sc[c[2]].s
InRange(T, s, pos) == T.sc[s].s <= pos /\ pos < T.sc[s].e

\* find_scope: descend into the first child scope whose range contains the position
RECURSIVE FindScope(_, _, _)
FindScope(T, s, pos) ==
  LET kids == SelectSeq(T.sc[s].ch, LAMBDA c : c[1] = "s" /\ InRange(T, c[2], pos))
  IN IF kids = <<>> THEN s ELSE FindScope(T, kids[1][2], pos)

\* visit_child_scope with f = "first declaration of that name"
VisitChild(T, c, name) ==
  LET ds == SelectSeq(T.sc[c].ch, LAMBDA x : x[1] = "d" /\ T.dc[x[2]].name = name) IN
  IF ds = <<>> THEN 0
  ELSE IF T.sc[c].kind \in {"FuncStat", "MethodStat"} THEN ds[1][2]
  ELSE IF T.sc[c].kind = "LOA" THEN (IF LoaOrder = "forward" THEN ds[1][2] ELSE ds[Len(ds)][2])
  ELSE 0

RECURSIVE WalkDown(_, _, _, _)
WalkDown(T, ch, i, name) ==
  IF i = 0 THEN 0 ELSE
  LET c == ch[i]
      r == IF c[1] = "d" THEN (IF T.dc[c[2]].name = name THEN c[2] ELSE 0)
           ELSE VisitChild(T, c[2], name)
  IN IF r # 0 THEN r ELSE WalkDown(T, ch, i - 1, name)

\* search_scope_children: right-most child strictly before pos, then walk in reverse
SearchChildren(T, s, pos, name) ==
  LET ch == T.sc[s].ch
      idx == {i \in 1..Len(ch) : ChildPos(T, ch[i]) < pos}
  IN IF idx = {} THEN 0 ELSE WalkDown(T, ch, Max(idx), name)

\* visit_visible_decls
RECURSIVE Visit(_, _, _, _, _)
Visit(T, s, pos, entry, name) ==
  LET S == T.sc[s]
      first == IF S.ch # <<>> /\ S.ch[1][1] = "s" THEN S.ch[1][2] ELSE 0
      Up(p2) == IF S.par = 0 THEN 0 ELSE Visit(T, S.par, p2, FALSE, name)
      own == SearchChildren(T, s, pos, name)
      SearchThenUp == IF own # 0 THEN own ELSE Up(pos)
  IN
  IF S.kind = "LOA" THEN Up(S.s)
  ELSE IF S.kind = "Repeat" THEN
         IF entry THEN (IF first # 0 THEN Visit(T, first, pos, TRUE, name) ELSE Up(pos))
         ELSE LET inBody == IF first # 0 THEN SearchChildren(T, first, pos, name) ELSE 0
              IN IF inBody # 0 THEN inBody ELSE SearchThenUp
  ELSE IF S.kind = "ForRange" /\ entry THEN Up(pos)
  ELSE SearchThenUp

Lookup(T, name, pos) == Visit(T, FindScope(T, 1, pos), pos, TRUE, name)
\* what the semantic layer reports: a local declaration's position, or 0 (global / nothing)
Resolve(T, name, pos) == LET d == Lookup(T, name, pos) IN
                         IF d = 0 THEN 0 ELSE IF T.dc[d].loc THEN T.dc[d].pos ELSE 0

UseName(T, name, pos) == [T EXCEPT !.refs = @ \cup {<<pos, Resolve(T, name, pos)>>}]
\* analyze_assign_stat / analyze_func_stat: a global declaration is created when nothing is visible
MaybeGlobal(T, name, pos) == IF Lookup(T, name, pos) = 0 THEN AddDecl(T, name, pos, FALSE) ELSE T

UseExpr(T, e, b) ==
  CASE e.t = "lit" -> T
    [] e.t = "name" -> UseName(T, e.n, b)
    [] e.t = "fn" ->
         LET T1 == NewScope(T, "Normal", b, b + 5)          \* ClosureExpr
             T2 == AddDecl(T1, e.p, b + 1, TRUE)
             T3 == NewScope(T2, "Normal", b + 2, b + 4)      \* its Block
             T4 == UseName(T3, e.n, b + 3)
         IN PopScope(PopScope(T4))

\* index of the item that closes the block opened at item i (stopAtElse: an `else` at depth 0 counts)
RECURSIVE Scan(_, _, _, _)
Scan(p, j, d, stopAtElse) ==
  IF j > Len(p) THEN j ELSE
  LET k == p[j].k IN
  IF k \in OpenerKinds THEN Scan(p, j + 1, d + 1, stopAtElse)
  ELSE IF k \in CloserKinds THEN (IF d = 0 THEN j ELSE Scan(p, j + 1, d - 1, stopAtElse))
  ELSE IF k = "else" /\ d = 0 /\ stopAtElse THEN j
  ELSE Scan(p, j + 1, d, stopAtElse)
CloseOf(p, i) == Base(Scan(p, i + 1, 0, FALSE))
BlockEndOf(p, i) == Base(Scan(p, i + 1, 0, TRUE))

\* number of scopes to pop at the `end` closing the opener at item j
RECURSIVE OpenerOf(_, _, _)
OpenerOf(p, j, d) ==   \* scan left from j for the matching opener (else counts as part of its if)
  LET k == p[j].k IN
  IF k \in CloserKinds THEN OpenerOf(p, j - 1, d + 1)
  ELSE IF k \in OpenerKinds THEN (IF d = 0 THEN j ELSE OpenerOf(p, j - 1, d - 1))
  ELSE OpenerOf(p, j - 1, d)
Pops(k) == CASE k \in {"localfunc", "func"} -> 3
             [] k \in {"fornum", "forin"} -> 2
             [] OTHER -> 1
RECURSIVE PopN(_, _)
PopN(T, n) == IF n = 0 THEN T ELSE PopN(PopScope(T), n - 1)

Step(p, i, T) ==
  LET it == p[i]
      b == Base(i)
  IN CASE it.k = "local" ->
            PopScope(UseExpr(AddDecl(NewScope(T, "LOA", b, b + 9), it.a, b + 1, TRUE), it.e, b + 3))
       [] it.k = "local2" ->
            PopScope(UseExpr(AddDecl(AddDecl(NewScope(T, "LOA", b, b + 9), it.a, b + 1, TRUE),
                                     it.b, b + 2, TRUE), it.e, b + 4))
       [] it.k = "assign" ->
            PopScope(UseExpr(UseName(MaybeGlobal(NewScope(T, "LOA", b, b + 9), it.a, b), it.a, b),
                             it.e, b + 2))
       [] it.k = "use" -> UseName(T, it.a, b + 1)
       [] it.k = "localfunc" ->
            LET c == CloseOf(p, i)
                T1 == AddDecl(NewScope(T, "FuncStat", b, c + 1), it.a, b + 2, TRUE)
                T2 == AddDecl(NewScope(T1, "Normal", b + 3, c + 1), it.b, b + 4, TRUE)
            IN NewScope(T2, "Normal", b + 5, c)
       [] it.k = "func" ->
            LET c == CloseOf(p, i)
                T1 == UseName(MaybeGlobal(NewScope(T, "FuncStat", b, c + 1), it.a, b + 1), it.a, b + 1)
                T2 == AddDecl(NewScope(T1, "Normal", b + 2, c + 1), it.b, b + 3, TRUE)
            IN NewScope(T2, "Normal", b + 4, c)
       [] it.k = "do" -> NewScope(T, "Normal", b + 1, CloseOf(p, i))
       [] it.k \in {"while", "if"} -> NewScope(UseExpr(T, it.e, b + 1), "Normal", b + 3, BlockEndOf(p, i))
       [] it.k = "else" -> NewScope(PopScope(T), "Normal", b + 1, CloseOf(p, i))
       [] it.k = "repeat" ->
            LET c == CloseOf(p, i) IN
            NewScope(NewScope(T, "Repeat", b, c + 9), "Normal", b + 1, c)
       [] it.k = "until" -> PopScope(UseExpr(PopScope(T), it.e, b + 1))
       [] it.k = "fornum" ->
            LET c == CloseOf(p, i)
                T1 == AddDecl(NewScope(T, ForNumKind, b, c + 1), it.a, b + 1, TRUE)
            IN NewScope(UseExpr(T1, it.e, b + 3), "Normal", b + 6, c)
       [] it.k = "forin" ->
            LET c == CloseOf(p, i)
                T1 == AddDecl(AddDecl(NewScope(T, "ForRange", b, c + 1), it.a, b + 1, TRUE), it.b, b + 2, TRUE)
            IN NewScope(UseExpr(T1, it.e, b + 4), "Normal", b + 6, c)
       [] it.k = "end" -> PopN(T, Pops(p[OpenerOf(p, i - 1, 0)].k))

RECURSIVE Build(_, _, _)
Build(p, i, T) == IF i > Len(p) THEN T ELSE Build(p, i + 1, Step(p, i, T))

EmptyTree == [sc |-> <<>>, dc |-> <<>>, stk |-> <<>>, refs |-> {}]
\* Chunk and its Block
RootTree == NewScope(NewScope(EmptyTree, "Normal", 0, BIG), "Normal", 0, BIG)
Transcribed(p) == Build(p, 1, RootTree).refs

\* ------------------------------------------------------------------------------------------
\* properties of the model and case emission
\* ------------------------------------------------------------------------------------------
\* both resolvers judge exactly the same use sites, once each
SameSites == LET r == Reference(Program) t == Transcribed(Program) IN
             /\ {x[1] : x \in r} = {x[1] : x \in t}
             /\ Cardinality({x[1] : x \in r}) = Cardinality(r)
             /\ Cardinality({x[1] : x \in t}) = Cardinality(t)
\* Known finding, keyed by mechanism: a use inside a closure that is part of a for-loop HEADER expression,
\* naming one of that loop's own variables (and not the closure's parameter), is resolved by the
\* declaration tree to the loop variable: the closure's scope is a child of the for scope, and a for scope
\* reached from a child always offers its declarations.  (Making the for scope tell its body from a
\* header closure needs a new scope kind; the "last child scope is the body" shortcut is wrong because
\* names are resolved while the tree is being built, before the body scope exists -- found with TLC.)
KF_HeaderClosure(p, u) ==
  LET it == p[u \div 10]
      slot == u % 10
  IN /\ it.k \in {"fornum", "forin"} /\ it.e.t = "fn"
     /\ slot = (IF it.k = "fornum" THEN 3 ELSE 4) + 3
     /\ it.e.n \in {it.a, it.b} /\ it.e.n # it.e.p
OwnLoopVar(p, u) == LET it == p[u \div 10] b == Base(u \div 10) IN
                    IF it.k = "forin" /\ it.b = it.e.n THEN b + 2 ELSE b + 1

Target(m, u) == (CHOOSE x \in m : x[1] = u)[2]
\* the transcribed algorithm implements Lua scoping everywhere except at the waiver sites, where it
\* yields the loop's own variable
Agree == CheckAgree =>
           LET r == Reference(Program) t == Transcribed(Program) IN
           \A x \in r : IF KF_HeaderClosure(Program, x[1])
                         THEN Target(t, x[1]) = OwnLoopVar(Program, x[1])
                         ELSE Target(t, x[1]) = x[2]
KfSites(p) == {x[1] : x \in {y \in Reference(p) : KF_HeaderClosure(p, y[1])}}


\* ------------------------------------------------------------------------------------------
\* C14: equivalence classes and renaming
\* ------------------------------------------------------------------------------------------
SlotA(k) == CASE k = "local" -> 1 [] k = "local2" -> 1 [] k = "assign" -> 0 [] k = "use" -> 1 [] k = "localfunc" -> 2
              [] k = "func" -> 1 [] k = "fornum" -> 1 [] k = "forin" -> 1 [] OTHER -> 9
SlotB(k) == CASE k = "local2" -> 2 [] k = "localfunc" -> 4 [] k = "func" -> 3 [] k = "forin" -> 2 [] OTHER -> 9
ExprBase(k) == CASE k = "local" -> 3 [] k = "local2" -> 4 [] k = "assign" -> 2 [] k \in {"while", "if", "until"} -> 1
                 [] k = "fornum" -> 3 [] k = "forin" -> 4 [] OTHER -> 9
\* declaration sites of a program: positions at which a local, loop variable or parameter is declared
DeclSites(p) ==
  UNION {LET it == p[i] b == Base(i) IN
           (IF it.k \in {"local", "local2", "localfunc", "fornum", "forin"} /\ it.a # None THEN {b + SlotA(it.k)} ELSE {})
           \cup (IF it.k \in {"local2", "localfunc", "func", "forin"} /\ it.b # None THEN {b + SlotB(it.k)} ELSE {})
           \cup (IF it.e.t = "fn" /\ it.e.p # None THEN {b + ExprBase(it.k) + 1} ELSE {})
         : i \in 1..Len(p)}
\* the declaration d together with every use that the reference resolves to it
Class(p, d) == {d} \cup {x[1] : x \in {y \in Reference(p) : y[2] = d}}
\* write the fresh name at every position of S
RenameAt(p, S) ==
  [i \in 1..Len(p) |->
     LET it == p[i] b == Base(i) eb == b + ExprBase(it.k) IN
     [k |-> it.k,
      a |-> IF b + SlotA(it.k) \in S THEN Fresh ELSE it.a,
      b |-> IF b + SlotB(it.k) \in S THEN Fresh ELSE it.b,
      e |-> [t |-> it.e.t,
             n |-> IF (it.e.t = "name" /\ eb \in S) \/ (it.e.t = "fn" /\ eb + 3 \in S) THEN Fresh ELSE it.e.n,
             p |-> IF it.e.t = "fn" /\ eb + 1 \in S THEN Fresh ELSE it.e.p]]]
\* renaming a declaration and exactly its class to a fresh name leaves the resolution structure unchanged,
\* and renaming a class minus one use, or plus one foreign occurrence of the same name, does not (so the
\* class is the unique edit set): checked on the reference, i.e. a statement about Lua scoping itself
RenameIso == \A d \in DeclSites(Program) :
               Reference(RenameAt(Program, Class(Program, d))) = Reference(Program)
RenameTight == \A d \in DeclSites(Program) : \A u \in Class(Program, d) \ {d} :
                 Reference(RenameAt(Program, Class(Program, d) \ {u})) # Reference(Program)

\* deterministic structural hash of a program (sampling only; no semantic role)
NameCode(x) == IF x = None THEN 0 ELSE CHOOSE i \in 1..Len(NameSeq) : NameSeq[i] = x
KindSeq == <<"local", "local2", "assign", "use", "localfunc", "func", "do", "repeat", "while", "if",
             "fornum", "forin", "else", "end", "until">>
KindCode(k) == CHOOSE i \in 1..Len(KindSeq) : KindSeq[i] = k
ItemHash(it) == KindCode(it.k) * 7 + NameCode(it.a) * 3 + NameCode(it.b) * 5
                + (IF it.e.t = "lit" THEN 0 ELSE IF it.e.t = "name" THEN 1 ELSE 2) * 11
                + NameCode(it.e.n) * 13 + NameCode(it.e.p) * 17
RECURSIVE ProgHash(_, _)
ProgHash(p, i) == IF i > Len(p) THEN 0 ELSE (i + 1) * ItemHash(p[i]) + ProgHash(p, i + 1)

Compact(p) == [i \in 1..Len(p) |-> <<p[i].k, p[i].a, p[i].b, p[i].e.t, p[i].e.n, p[i].e.p>>]
Emit == IF Len(prog) >= MinEmit /\ ProgHash(prog, 1) % EmitMod = 0
        THEN PrintT(<<"CASE", ToJson([p |-> Compact(Program), ref |-> Reference(Program),
                                      tr |-> Transcribed(Program), kf |-> KfSites(Program),
                                      decls |-> DeclSites(Program)])>>)
        ELSE TRUE
=============================================================================
