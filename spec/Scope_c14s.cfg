\* C14 design check + cases: random walks to 7 items / nesting 3 (simulation); invariants on every successor
SPECIFICATION Spec
CONSTANTS
  NameSeq <- NamesAB
  Rich = TRUE
  MaxItems = 7
  MaxDepth = 3
  MinEmit = 3
  EmitMod = 3
  ForNumKind = "ForRange"
  LoaOrder = "reverse"
  CheckAgree = TRUE
INVARIANTS SameSites Agree RenameIso RenameTight Emit
