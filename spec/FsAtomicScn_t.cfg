SPECIFICATION Spec
CONSTANTS
  Sizes = {1, 2, 7}
  ArgModes = {"files", "dir"}
INVARIANT Emit
