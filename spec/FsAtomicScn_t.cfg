SPECIFICATION Spec
CONSTANTS
  Sizes = {1, 7}
  ArgModes = {"files", "dir"}
INVARIANT Emit
