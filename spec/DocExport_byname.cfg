SPECIFICATION Spec
CONSTANTS
  AlphaA = {"CF", "PH"}
  AlphaB = {"PH", "PA"}
  AlphaC = {"PA"}
  AlphaL = {"LC", "PH"}
  SortsBeforeExport = TRUE
  TwoRuns = FALSE
INVARIANTS KeyedByNameLosesNothing
