---------------------------- MODULE FsAtomicTrace ----------------------------
(* Trace validation for C39: the script is the strace recording of the real `luafmt --write`
   (one or more runs, each starting with a "reset" event that carries the initial files and, per target,
   its original and formatted content, and ending with "exit" and "observe" = the directory as read back
   from the real file system).  FsAtomic replays it with Kill / WriteFault composed after every prefix. *)
EXTENDS FsAtomic, IOUtils

TraceScript == TLCEval(ndJsonDeserialize(IOEnv.TRACE))

\* acceptance: the whole recording was consumed by Step (the driver also checks the last RUN line)
Accepted == TLCGet("stats").diameter >= Len(TraceScript) + 1
=============================================================================
