\* behaviours replayed into the in-process session: synchronous delivery, server ready, fixed design
SPECIFICATION Spec
CONSTANTS
  MaxMsgs = 4
  MaxReqs = 3
  StartPhases = {"ready"}
  Kinds = {"req", "cancel", "notif", "resp"}
  BadParams = {"error"}
  Panic = {"error"}
  BadInit = {"error"}
  PostShutdown = {"error"}
  CancelDesign = "flag"
  SyncWire = TRUE
INVARIANTS TypeOK ExactlyOne AtMostOne NoOrphan NoLeak CancelAnswer Emit
