SPECIFICATION Spec
VIEW view
CONSTANTS
  Uris = {"u1"}
  Texts = {"t1","t2"}
  MaxMsgs = 3
  MsgKinds = {"open","change","close","cfg"}
  MaxCfg = 1
  MaxDisk = 0
  OnDisk = {}
  InlineOpen = TRUE
  InlineChange = TRUE
  InlineClose = TRUE
  EnableReindex = FALSE
  InitOpen = {}
  Outside = {"u1"}
  CfgAddsLib = TRUE
INVARIANTS Emit
