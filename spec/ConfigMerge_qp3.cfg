\* sibling keys a.b / a.bb in every spelling across 3 files
SPECIFICATION Spec
CONSTANTS
  Variant = "fixed"
  Tier = "p3"
  MaxFiles = 3
  MaxPerFile = 2
  MaxTotal = 3
  EmitCases = TRUE
INVARIANTS NoCrash LaterWins FlatIsNested Emit
