----------------------------- MODULE FmtSelDocs -----------------------------
(* Document generator for C07 (range formatting): multi-line TOKENS inside indented blocks.

   Range formatting strips the source indent of the selected statements line by line, formats the fragment and
   re-applies the target indent line by line.  A line that starts inside a token (continuation line of a
   multi-line token) is content, not indentation.  Lua has three kinds of tokens that span lines:
     short strings continued with backslash + line break or with \z + line break (5.2+),
     long strings  [[ ]] / [=[ ]=],
     long comments --[[ ]] / --[==[ ]==].
   A document is  wrapper(indent unit) x statement form x indent of the continuation lines x line break x
   configuration; every combination is one initial state (exhaustive, Init only).  The statement sits at
   the top level, in a correctly indented block, in a block whose body is not indented at all (source indent
   "" -> target indent one unit), two levels deep, or indented much deeper than the formatter would put it.
   One DOC line per document; FmtSel.tla then enumerates the selections over it.  *)
EXTENDS Naturals, Sequences, FiniteSets, TLC, Json

CONSTANTS Forms,      \* statement forms to generate
          Conts,      \* indents of the continuation lines (names, see Ws)
          Wraps,      \* wrappers by name (see Wrap): kind + indent unit
          Breaks,     \* line breaks of the document ("LF", "CRLF")
          CrForms,    \* the forms that are also generated with CR LF line breaks (others: LF only)
          CfgNames    \* configurations

VARIABLES form, cont, wrap, br, cfgn
vars == <<form, cont, wrap, br, cfgn>>

Ws(n) == CASE n = "0" -> "" [] n = "2" -> "  " [] n = "4" -> "    " [] n = "6" -> "      " [] n = "tab" -> "\t"
Br(n) == IF n = "CRLF" THEN "\r\n" ELSE "\n"

Wrap(n) == CASE n = "top" -> <<"top", "0">>
            [] n = "if-4" -> <<"if", "4">> [] n = "if-0" -> <<"if", "0">> [] n = "if-tab" -> <<"if", "tab">> [] n = "if-2" -> <<"if", "2">>
            [] n = "nest-2" -> <<"nest", "2">> [] n = "nest-4" -> <<"nest", "4">> [] n = "nest-tab" -> <<"nest", "tab">>
            [] n = "deep-4" -> <<"deep", "4">>

AllForms == {"esc-dq", "esc-sq-two", "esc-z", "esc-call", "esc-call-noparen", "esc-table", "esc-return",
             "long0", "long1", "cmt0", "cmt2", "cmt-trailing"}

\* The statement: first line without indent; b = line break, c = indent of the continuation lines, w = the
\* wrapper's indent for the code lines that follow the first one.
Stmt(f, b, c, w) ==
  CASE f = "esc-dq"           -> "v = \"a\\" \o b \o c \o "b\""
    [] f = "esc-sq-two"       -> "local s = 'a\\" \o b \o c \o "b\\" \o b \o "c'"          \* second continuation in column 0
    [] f = "esc-z"            -> "v = \"a\\z" \o b \o c \o "b\""
    [] f = "esc-call"         -> "f(\"a\\" \o b \o c \o "b\", 1)"
    [] f = "esc-call-noparen" -> "f 'a\\" \o b \o c \o "b'"
    [] f = "esc-table"        -> "local t = { \"a\\" \o b \o c \o "b\", 2 }"
    [] f = "esc-return"       -> "do return \"a\\" \o b \o c \o "b\" end"
    [] f = "long0"            -> "v = [[" \o b \o c \o "keep" \o b \o "this]]"
    [] f = "long1"            -> "v = [=[x" \o b \o c \o "keep]]" \o b \o "]=]"
    [] f = "cmt0"             -> "--[[" \o b \o c \o "c" \o b \o "d ]]" \o b \o w \o "v = 2"
    [] f = "cmt2"             -> "--[==[ x" \o b \o c \o "]] y" \o b \o "]==]" \o b \o w \o "v = 2"
    [] f = "cmt-trailing"     -> "v = 1 --[[ t" \o b \o c \o "u ]]"

Doc(f, bn, cn, wn) ==
  LET k == Wrap(wn)[1]
      u == Ws(Wrap(wn)[2])
      b == Br(bn)
      c == Ws(cn)
  IN CASE k = "top"  -> "local x = 1" \o b \o Stmt(f, b, c, "") \o b \o "return x" \o b
       [] k = "if"   -> "local x = 1" \o b \o "if x then" \o b \o u \o Stmt(f, b, c, u) \o b \o u \o "f(x)" \o b \o "end" \o b
       [] k = "nest" -> "function M.g(a)" \o b \o u \o "while a do" \o b \o u \o u \o Stmt(f, b, c, u \o u) \o b
                        \o u \o "end" \o b \o u \o "return a" \o b \o "end" \o b
       [] k = "deep" -> "do" \o b \o u \o u \o u \o Stmt(f, b, c, u \o u \o u) \o b \o u \o "f()" \o b \o "end" \o b

\* configurations: JSON shape of LuaFormatConfig (the subset that matters here; the rest defaults)
Cfg(n) ==
  CASE n = "s4"        -> [indent |-> [kind |-> "Space", width |-> 4]]
    [] n = "tab"       -> [indent |-> [kind |-> "Tab", width |-> 4]]
    [] n = "s2-double" -> [indent |-> [kind |-> "Space", width |-> 2], output |-> [quote_style |-> "Double"]]

Init == /\ form \in Forms /\ cont \in Conts /\ wrap \in Wraps /\ br \in Breaks /\ cfgn \in CfgNames
        /\ (br = "CRLF" => form \in CrForms)
Next == UNCHANGED vars
Spec == Init /\ [][Next]_vars

\* the statement forms really are multi-line tokens of the three kinds
ASSUME Forms \subseteq AllForms

Emit == PrintT(<<"DOC", ToJson([text |-> Doc(form, br, cont, wrap), cfg |-> Cfg(cfgn),
                                 src |-> <<form, wrap, cont, br, cfgn>>])>>)
=============================================================================
