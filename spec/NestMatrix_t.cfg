SPECIFICATION Spec
CONSTANTS
  Depths = {8, 64, 150, 250, 1000, 4000, 16000, 64000, 200000}
  Levels = {"Lua51", "Lua54", "Lua55", "LuaJIT"}
  TreeDepthBound = 2000
  MustErrorAbove = 999
INVARIANTS Emit
