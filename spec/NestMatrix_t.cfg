SPECIFICATION Spec
CONSTANTS
  Depths = {8, 64, 90, 250, 1000, 4000, 16000, 64000, 200000}
  Levels = {"Lua51", "Lua54", "Lua55", "LuaJIT"}
  CleanUpTo = 90
  MustErrorAbove = 200
  EvK = 12
  EvC = 16
INVARIANTS Emit
