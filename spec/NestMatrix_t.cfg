SPECIFICATION Spec
CONSTANTS
  Depths = {8, 64, 90, 250, 1000, 4000, 25000, 100000}
  Levels = {"Lua51", "Lua55", "LuaJIT"}
  CleanUpTo = 90
  MustErrorAbove = 200
  EvK = 12
  EvC = 16
INVARIANTS Emit
