------------------------------ MODULE ConcQuery ------------------------------
(* Concurrent read-only queries on one shared analysis (C38).

   The specification of a read-only operation is: "returns Eval(db, q) and leaves db unchanged".  With that
   specification every interleaving of any number of threads returns, for every query, exactly the value the
   sequential execution returns (SeqEquivalent) and never changes the database (DbUnchanged).  TLC checks this
   on the model (it is the design argument why `&EmmyLuaAnalysis` may be shared) and, more importantly here,
   GENERATES the test configurations: workspace, query multiset, assignment of the queries to <= MaxThreads
   threads.  The harness runs each configuration on the real `Arc<EmmyLuaAnalysis>` sequentially and with real
   threads and compares; a real implementation that is NOT read-only (hidden shared mutable state) shows up
   as a result that differs from the sequential one, a changed index size, or a panic.

   What this cannot see: a data race that does not change any result.  That needs a race detector and is
   outside this technique.

   Phases: "assign" (generator actions: give thread t one more query), "run" (threads execute), "done". *)
EXTENDS Naturals, Sequences, FiniteSets, TLC, Json

CONSTANTS MaxThreads, MaxPerThread,
          Files,          \* files of the workspace
          Progs,          \* program kinds a file may contain
          Kinds           \* query kinds: "diag" | "types" | "decl"

VARIABLES ws,             \* Files -> Progs
          nthreads,       \* number of threads used (2..MaxThreads)
          phase, assign,  \* thread -> sequence of queries [k, f]
          pc, results, db, sched

vars == <<ws, nthreads, phase, assign, pc, results, db, sched>>
Threads == 1..MaxThreads
Queries == [k : Kinds, f : Files]

\* abstract value of a query: a function of the database and the query only
Eval(d, q) == <<d, q>>
Db0 == <<"db", ws>>

Init == /\ ws \in [Files -> Progs]
        /\ nthreads \in 2..MaxThreads
        /\ phase = "assign"
        /\ assign = [t \in Threads |-> <<>>]
        /\ pc = [t \in Threads |-> 1]
        /\ results = [t \in Threads |-> <<>>]
        /\ db = <<"db", ws>>
        /\ sched = <<>>

\* generator action: one more query for thread t (threads are filled from 1 upwards: no gaps)
Assign(t, q) == /\ phase = "assign"
                /\ t <= nthreads /\ Len(assign[t]) < MaxPerThread
                /\ (t = 1 \/ (t > 1 /\ assign[IF t > 1 THEN t - 1 ELSE 1] # <<>>))
                /\ assign' = [assign EXCEPT ![t] = Append(@, q)]
                /\ UNCHANGED <<ws, nthreads, phase, pc, results, db, sched>>

Start == /\ phase = "assign"
         /\ Cardinality({t \in Threads : assign[t] # <<>>}) >= 2
         /\ phase' = "run"
         /\ UNCHANGED <<ws, nthreads, assign, pc, results, db, sched>>

\* a read-only query: result is Eval of the CURRENT db, db is left alone
Step(t) == /\ phase = "run"
           /\ pc[t] <= Len(assign[t])
           /\ results' = [results EXCEPT ![t] = Append(@, Eval(db, assign[t][pc[t]]))]
           /\ pc' = [pc EXCEPT ![t] = @ + 1]
           /\ sched' = Append(sched, t)
           /\ UNCHANGED <<ws, nthreads, phase, assign, db>>

Finish == /\ phase = "run"
          /\ \A t \in Threads : pc[t] > Len(assign[t])
          /\ phase' = "done"
          /\ UNCHANGED <<ws, nthreads, assign, pc, results, db, sched>>

Next == \/ \E t \in Threads : Step(t) \/ \E q \in Queries : Assign(t, q)
        \/ Start \/ Finish
Spec == Init /\ [][Next]_vars

SeqEquivalent == \A t \in Threads : \A i \in DOMAIN results[t] : results[t][i] = Eval(Db0, assign[t][i])
DbUnchanged == db = Db0
Complete == phase = "done" => \A t \in Threads : Len(results[t]) = Len(assign[t])

\* one line per finished behaviour: the configuration (and the interleaving TLC happened to walk)
Emit == phase = "done" =>
          PrintT(<<"CASE", ToJson([ws |-> ws, nthreads |-> nthreads,
                                   threads |-> [t \in Threads |-> assign[t]],
                                   sched |-> sched])>>)
=============================================================================
