------------------------------- MODULE LsDocs -------------------------------
(* C26: bounded generator of the documents the structure-returning requests are run on.
   A document is a sequence of 1..MaxStmts statement templates (valid Lua with doc comments, multi-line
   comments/strings, non-ASCII text -- also inside multi-line tokens, on their first / middle / last line --,
   colours/links, and two syntactically broken fragments), a line
   terminator (LF or CR LF) and the choice of keeping the final terminator.  %E and %U stand for a 2-byte
   and an astral character (substituted by the transport; module files stay ASCII).                  *)
EXTENDS Naturals, Sequences, TLC, Json

CONSTANTS MaxStmts

Templates == <<
  "---@class A\n---@field x number\nlocal A = {}\n",
  "---@param a number\n---@return number\nfunction A.f(a)\n  return a + 1\nend\n",
  "local s = \"%E%U\" -- %E%U\n",
  "--[[ multi\nline ]]\nlocal m = [[a\nb]]\n",
  "for i = 1, 3 do\n  print(i)\nend\n",
  "local t = { a = 1, b = { c = 2 } }\nprint(t.b.c)\n",
  "local function g(...)\n  local n = select('#', ...)\n  return n\nend\ng(1, 2)\n",
  "if x then\n  y = = 1\nend end\n",
  "local function (\n",
  "---@type A\nlocal a = A\na.x = A.f(a.x)\n",
  "local c = \"#ff0000\"\nlocal r = require(\"mod\")\n",
  "---@enum E\nlocal E = { X = 1, Y = 2 }\n---@alias N number|string\n--- doc of **h** `code`\nlocal function h() end\n",
  \* multi-line TOKENS with non-ASCII text (a client without multilineTokenSupport gets one piece per line, whose
  \* length is the rest of that line in UTF-16 units, not bytes or characters): on the first, a middle and the last line
  "--[[ %E%U a\nb %U%E b\nc %E ]]\nlocal u = 1\n",
  "local m2 = [==[%E%Ua\n%Ub%E\nc%E]==] .. \"x\"\n",
  \* ... on the middle line only; a short string continued with backslash-newline and \z
  "--[[ a\n%E%U%E\nz ]] local k = \"a%E\\\n%U\\z\n  b\"\n",
  \* ... on the first line only (comment) / on the last line only (string)
  "--[[ %U%E\nb\nc ]]\nlocal m3 = [[\nb\n%E%U]]\n",
  \* (second seeded round) an UNFINISHED index expression `t[#` on an array-like table whose closing bracket is on a
  \* FOLLOWING line (directly / after trailing blanks, an empty line and indentation), and the same-line shapes; the
  \* driver requests completion directly behind every `[#` (the array-append item `#t + 1] = ` carries a text edit that
  \* must stay on the cursor's line)
  "local arr = { 1, 2 }\narr[#\n]\n",
  "local arr2 = { 1 }\narr2[#  \n\n   ] = 3\n",
  "local arr3 = { \"%E\" }\narr3[#]\narr3[# ]\narr3[#\n"
>>
NT == Len(Templates)

VARIABLE doc
Init == doc \in [stmts : UNION {[1..n -> 1..NT] : n \in 1..MaxStmts}, crlf : BOOLEAN, final : BOOLEAN]
Next == UNCHANGED doc
Spec == Init /\ [][Next]_doc

RECURSIVE Cat(_)
Cat(s) == IF s = <<>> THEN "" ELSE Templates[Head(s)] \o Cat(Tail(s))
Emit == PrintT(<<"DOC", ToJson([stmts |-> doc.stmts, crlf |-> doc.crlf, final |-> doc.final, text |-> Cat(doc.stmts)])>>)
=============================================================================
