SPECIFICATION Spec
CONSTANTS
  NPaths = 3
  Contents = {"Enum", "Mod", "GStr", "GInt", "DiagOff", "Alias", "ReqB"}
  Ops = {"update", "unset", "remove"}
  MaxSteps = 4
  EditDist = 3
  Batch = FALSE
  EmitSel = "removal"
VIEW View
INVARIANTS ReindexIsIdeal NoLeak Emit
ACTION_CONSTRAINT EmitEdge
