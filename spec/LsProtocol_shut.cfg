\* behaviours after an answered shutdown request, replayed into the real AsyncConnection::handle_shutdown
SPECIFICATION Spec
CONSTANTS
  MaxMsgs = 3
  MaxReqs = 2
  StartPhases = {"shutdown"}
  Kinds = {"req", "cancel", "notif", "resp", "exit"}
  BadParams = {"error"}
  Panic = {"error"}
  BadInit = {"error"}
  PostShutdown = {"error"}
  CancelDesign = "flag"
  SyncWire = TRUE
INVARIANTS TypeOK ExactlyOne AtMostOne NoOrphan NoLeak CancelAnswer NeverDead Emit
