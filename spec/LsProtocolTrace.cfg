SPECIFICATION Spec
CONSTANTS MaxReqsT = 8
VIEW tview
INVARIANTS HighWater
POSTCONDITION Report
