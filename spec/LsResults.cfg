SPECIFICATION Spec
INVARIANTS Emit
