SPECIFICATION Spec
CONSTANTS
  K = 3
  TokSel = "all"
  RangeTokSel = "ends"
  QuadTokSel = "mid"
  SecClasses = {"docStart", "tokStart", "tokInside", "eolPlus", "lastPlus", "max"}
  ListMax = 3
INVARIANTS ClassesOK ShapeOK Emit
