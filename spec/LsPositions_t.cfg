SPECIFICATION Spec
CONSTANTS
  K = 3
  TokSel = "all"
  RangeTokSel = "ends"
INVARIANTS ClassesOK Emit
