SPECIFICATION Spec
CONSTANTS
  Forms = {"esc-dq", "esc-sq-two", "esc-z", "esc-call", "esc-call-noparen", "esc-table", "esc-return", "long0", "long1", "cmt0", "cmt2", "cmt-trailing"}
  Conts = {"0", "6", "tab"}
  Wraps = {"top", "if-4", "if-0", "if-tab", "nest-2", "deep-4"}
  Breaks = {"LF", "CRLF"}
  CrForms = {"esc-dq", "esc-z", "long0", "cmt0"}
  CfgNames = {"s4", "s2-double"}
INVARIANT Emit
