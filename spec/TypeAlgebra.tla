----------------------------- MODULE TypeAlgebra -----------------------------
(* Shared definitions of the type-algebra specifications (C16, C17, C18): annotation type TERMS,
   their canonical annotation SYNTAX (with the precedence rules of the doc-type grammar), the small
   declared WORLD (class chain, alias, enum, generic class) and the bounded term universes.

   A term is a uniform triple <<kind, name, children>> (uniform so that TLC can compare any two terms):

     <<"prim", "integer", <<>>>>          built-in names: nil boolean integer number string table any unknown
     <<"lit",  "1" | "true" | "'s'", <<>>>>   literal types, name = the annotation text
     <<"ref",  "A", <<>>>>                reference to a declared class / alias / enum
     <<"union","", <<m1, .., mn>>>>       n >= 2, members are not unions / optionals
     <<"opt",  "", <<t>>>>                t?            (t is not nil / optional)
     <<"arr",  "", <<t>>>>                t[]
     <<"tup",  "", <<t1, .., tn>>>>       [t1, .., tn]
     <<"map",  "", <<k, v>>>>             table<k, v>
     <<"rec",  shape, <<t1, .., tn>>>>    { x: t1, y?: t2 }   (shape names the keys, see RecShape)
     <<"fun",  "", <<p, r>>>>             fun(x: p): r
     <<"fun0", "", <<r>>>>                fun(): r
     <<"gen",  "G", <<t>>>>               G<t>           (generic class instance)
     <<"tpl",  "T", <<>>>>                a generic type parameter (C18 templates only)

   Precedence of the real grammar (crates/emmylua_parser/src/grammar/doc/types.rs), loosest first:
     level 0  fun(..): r      the return list swallows everything to its right, including `, t`
     level 1  t?              `?` is a postfix of a whole parse_type, i.e. `A|B?` = (A|B)? and `A?|B`,
                              `A?[]` do not parse
     level 2  a | b           binary operators
     level 3  -1              unary minus applies to a whole suffixed primary: `-1[]` = -(1[])
     level 4  primary with suffixes: names, literals, t[], G<..>, table<..>, [..], {..}, ( t )
*)
EXTENDS Naturals, Sequences, FiniteSets, TLC

Mk(k, n, cs) == <<k, n, cs>>
Kind(t) == t[1]
Name(t) == t[2]
Kids(t) == t[3]

Prim(n) == Mk("prim", n, <<>>)
Lit(n) == Mk("lit", n, <<>>)
Ref(n) == Mk("ref", n, <<>>)
Un(ms) == Mk("union", "", ms)
Opt(t) == Mk("opt", "", <<t>>)
Arr(t) == Mk("arr", "", <<t>>)
Tup(ts) == Mk("tup", "", ts)
Map(k, v) == Mk("map", "", <<k, v>>)
Rec(shape, ts) == Mk("rec", shape, ts)
Fun(p, r) == Mk("fun", "", <<p, r>>)
Fun0(r) == Mk("fun0", "", <<r>>)
Gen(g, ts) == Mk("gen", g, ts)
Tpl(n) == Mk("tpl", n, <<>>)

TNil == Prim("nil")
TAny == Prim("any")
TUnknown == Prim("unknown")

\* ---- record shapes: sequence of <<key, optional>>
RecShape(s) == CASE s = "x" -> << <<"x", FALSE, "n:x">> >>
                 [] s = "x,y" -> << <<"x", FALSE, "n:x">>, <<"y", FALSE, "n:y">> >>
                 [] s = "x,y?" -> << <<"x", FALSE, "n:x">>, <<"y", TRUE, "n:y">> >>
                 [] s = "x?" -> << <<"x", TRUE, "n:x">> >>
                 [] s = "[1]" -> << <<"[1]", FALSE, "i:1">> >>
                 [] s = "['a-b']" -> << <<"['a-b']", FALSE, "n:a-b">> >>
                 [] s = "['a b']" -> << <<"['a b']", FALSE, "n:a b">> >>          \* string keys that are not names
                 [] s = "['1']" -> << <<"['1']", FALSE, "n:1">> >>
                 [] s = "[dq]" -> << <<"['a\"b']", FALSE, "n:a\"b">> >>     \* (id without a quote: cfg files do not unescape)
                 [] s = "['']" -> << <<"['']", FALSE, "n:">> >>
                 [] s = "x,['a b']" -> << <<"x", FALSE, "n:x">>, <<"['a b']", FALSE, "n:a b">> >>
                 [] s = "[string]" -> << <<"[string]", FALSE, "t:string">> >>
                 [] s = "x,[string]" -> << <<"x", FALSE, "n:x">>, <<"[string]", FALSE, "t:string">> >>

\* ---- canonical syntax ---------------------------------------------------------------------
\* literals that start with the unary minus: `-1[]` would parse as -(1[]), so they rank below a primary
NegLits == {"-1", "-2", "-2147483649", "-9223372036854775807"}
Level(t) == CASE Kind(t) \in {"fun", "fun0"} -> 0
              [] Kind(t) = "opt" -> 1
              [] Kind(t) = "union" -> 2
              [] Kind(t) = "lit" /\ Name(t) \in NegLits -> 3
              [] OTHER -> 4

RECURSIVE Syn(_), JoinSyn(_, _, _), RecSyn(_, _, _)
\* syntax of t in a position that needs at least level `min`
P(t, min) == IF Level(t) < min THEN "(" \o Syn(t) \o ")" ELSE Syn(t)
JoinSyn(ts, sep, min) == IF Len(ts) = 0 THEN ""
                         ELSE IF Len(ts) = 1 THEN P(ts[1], min)
                         ELSE P(ts[1], min) \o sep \o JoinSyn(Tail(ts), sep, min)
RecSyn(shape, ts, i) ==
  IF i > Len(ts) THEN ""
  ELSE (IF i > 1 THEN ", " ELSE "") \o shape[i][1] \o (IF shape[i][2] THEN "?" ELSE "") \o ": "
       \o P(ts[i], 1) \o RecSyn(shape, ts, i + 1)
Syn(t) ==
  CASE Kind(t) \in {"prim", "lit", "ref", "tpl"} -> Name(t)
    [] Kind(t) = "union" -> JoinSyn(Kids(t), "|", 3)
    [] Kind(t) = "opt" -> P(Kids(t)[1], 2) \o "?"
    [] Kind(t) = "arr" -> P(Kids(t)[1], 4) \o "[]"
    [] Kind(t) = "tup" -> "[" \o JoinSyn(Kids(t), ", ", 1) \o "]"
    [] Kind(t) = "map" -> "table<" \o JoinSyn(Kids(t), ", ", 1) \o ">"
    [] Kind(t) = "rec" -> "{ " \o RecSyn(RecShape(Name(t)), Kids(t), 1) \o " }"
    [] Kind(t) = "fun" -> "fun(x: " \o P(Kids(t)[1], 1) \o "): " \o P(Kids(t)[2], 1)
    [] Kind(t) = "fun0" -> "fun(): " \o P(Kids(t)[1], 1)
    [] Kind(t) = "gen" -> Name(t) \o "<" \o JoinSyn(Kids(t), ", ", 1) \o ">"

\* The LuaType variant the analyser builds for the term (used by the harness as a vacuity guard: a term
\* that silently became Unknown/Any would make every law trivially true).
Variant(t) ==
  CASE Kind(t) = "prim" -> Name(t)
    [] Kind(t) = "lit" -> "lit"
    [] Kind(t) = "ref" -> "ref"
    [] Kind(t) \in {"union", "opt"} -> "union"
    [] Kind(t) = "arr" -> "array"
    [] Kind(t) = "tup" -> "tuple"
    [] Kind(t) = "map" -> "tablegeneric"
    [] Kind(t) = "rec" -> "object"
    [] Kind(t) \in {"fun", "fun0"} -> "docfunction"
    [] Kind(t) = "gen" -> "generic"

\* skeleton used for finding signatures: kind of the term and of its children, e.g. "arr(union)"
RECURSIVE KidKinds(_)
KidKinds(ts) == IF Len(ts) = 0 THEN "" ELSE IF Len(ts) = 1 THEN Kind(ts[1])
                ELSE Kind(ts[1]) \o "," \o KidKinds(Tail(ts))
Skel(t) == IF Kids(t) = <<>> THEN Kind(t) ELSE Kind(t) \o "(" \o KidKinds(Kids(t)) \o ")"

\* ---- literals ---------------------------------------------------------------------------------
\* CHARACTERS of string literals: id -> <<text of the character inside a single-quoted annotation literal
\* (the escapes of the Lua string grammar that the annotation lexer shares), code point>>.  The value of a
\* string literal is its sequence of code points; the normal form spells it "s:c1,c2,..", so that control
\* and non-ASCII characters travel through TLC, JSON and the harness unambiguously.
ChTab(ch) == CASE ch = "a" -> <<"a", 97>>
               [] ch = "b" -> <<"b", 98>>
               [] ch = "n" -> <<"n", 110>>
               [] ch = "s" -> <<"s", 115>>
               [] ch = "t" -> <<"t", 116>>
               [] ch = "1" -> <<"1", 49>>              \* a decimal digit
               [] ch = "2" -> <<"2", 50>>
               [] ch = "F" -> <<"F", 70>>              \* a hexadecimal digit that is not a decimal digit
               [] ch = "sp" -> <<" ", 32>>
               [] ch = "dq" -> <<"\"", 34>>            \* a double quote needs no escape between single quotes
               [] ch = "sq" -> <<"\\'", 39>>
               [] ch = "bs" -> <<"\\\\", 92>>
               [] ch = "nl" -> <<"\\n", 10>>
               [] ch = "cr" -> <<"\\r", 13>>
               [] ch = "tab" -> <<"\\t", 9>>
               [] ch = "nul" -> <<"\\x00", 0>>
               [] ch = "soh" -> <<"\\x01", 1>>
               [] ch = "bel" -> <<"\\a", 7>>
               [] ch = "esc" -> <<"\\x1B", 27>>
               [] ch = "us" -> <<"\\x1F", 31>>
               [] ch = "del" -> <<"\\x7F", 127>>
               [] ch = "nel" -> <<"\\u{85}", 133>>     \* C1 control character
               [] ch = "eacute" -> <<"\\u{E9}", 233>>
               [] ch = "cjk" -> <<"\\u{65E5}", 26085>>
               [] ch = "astral" -> <<"\\u{1F600}", 128512>>
\* string literals: id -> sequence of characters
StrTab(n) == CASE n = "s" -> <<"s">>
               [] n = "t" -> <<"t">>
               [] n = "sp" -> <<"a", "sp", "b">>
               [] n = "dq" -> <<"a", "dq", "b">>
               [] n = "bs" -> <<"a", "bs", "b">>
               [] n = "empty" -> <<>>
               [] n = "digit" -> <<"1">>                   \* the string '1', not the integer 1
               [] n = "sq" -> <<"a", "sq", "b">>
               [] n = "bsn" -> <<"bs", "n">>               \* backslash followed by the letter n (not a newline)
               [] n = "bsdq" -> <<"bs", "dq">>             \* backslash followed by a quote
               [] n = "nl" -> <<"a", "nl", "b">>
               [] n = "cr" -> <<"cr", "nl">>
               [] n = "tab" -> <<"tab", "a">>
               [] n = "ctl" -> <<"a", "soh", "b">>         \* control character followed by a (hex digit) letter
               [] n = "ctld" -> <<"soh", "2">>             \* control character followed by a decimal digit
               [] n = "ctlF" -> <<"us", "F">>              \* control character followed by a hex-only digit
               [] n = "ctldd" -> <<"soh", "2", "1">>
               [] n = "nul" -> <<"nul">>
               [] n = "nuld" -> <<"a", "nul", "1">>
               [] n = "bel" -> <<"bel">>
               [] n = "esc" -> <<"esc", "a">>
               [] n = "escd" -> <<"esc", "2">>             \* escape character followed by a decimal digit
               [] n = "del" -> <<"del", "1">>
               [] n = "nel" -> <<"nel", "1">>
               [] n = "u8" -> <<"eacute">>
               [] n = "u8d" -> <<"a", "eacute", "1">>
               [] n = "cjk" -> <<"cjk", "a">>
               [] n = "astral" -> <<"astral">>
StrIds == {"s", "t", "sp", "dq", "bs", "empty", "digit", "sq", "bsn", "bsdq", "nl", "cr", "tab", "ctl", "ctld", "ctlF",
           "ctldd", "nul", "nuld", "bel", "esc", "escd", "del", "nel", "u8", "u8d", "cjk", "astral"}
\* integer literals: id -> <<annotation text, decimal value>>
IntTab(n) == CASE n = "0" -> <<"0", "0">>
               [] n = "1" -> <<"1", "1">>
               [] n = "2" -> <<"2", "2">>
               [] n = "-1" -> <<"-1", "-1">>
               [] n = "-2" -> <<"-2", "-2">>
               [] n = "hex" -> <<"0x10", "16">>
               [] n = "i32" -> <<"2147483648", "2147483648">>
               [] n = "-i32" -> <<"-2147483649", "-2147483649">>
               [] n = "f53" -> <<"9007199254740993", "9007199254740993">>      \* 2^53 + 1: not a double
               [] n = "max" -> <<"9223372036854775807", "9223372036854775807">>
               [] n = "-max" -> <<"-9223372036854775807", "-9223372036854775807">>
IntIds == {"0", "1", "2", "-1", "-2", "hex", "i32", "-i32", "f53", "max", "-max"}
BoolIds == {"true", "false"}
\* the literals that start with the unary minus are exactly NegLits (see Level)
ASSUME NegLits = {IntTab(n)[1] : n \in {"-1", "-2", "-i32", "-max"}}

RECURSIVE SrcJoin(_), CpJoin(_)
SrcJoin(cs) == IF cs = <<>> THEN "" ELSE ChTab(Head(cs))[1] \o SrcJoin(Tail(cs))
CpJoin(cs) == IF cs = <<>> THEN "" ELSE ToString(ChTab(Head(cs))[2]) \o (IF Len(cs) > 1 THEN "," ELSE "") \o CpJoin(Tail(cs))
\* id -> <<annotation text, normal form, widened base type>>
LitTab(n) == IF n \in BoolIds THEN <<n, "b:" \o n, "boolean">>
             ELSE IF n \in IntIds THEN <<IntTab(n)[1], "i:" \o IntTab(n)[2], "integer">>
             ELSE <<"'" \o SrcJoin(StrTab(n)) \o "'", "s:" \o CpJoin(StrTab(n)), "string">>
LitIds == BoolIds \cup IntIds \cup StrIds
\* (constant tables: TLC evaluates them once)
LitFn == [n \in LitIds |-> LitTab(n)]
LitTexts == {LitFn[n][1] : n \in LitIds}
LitIdOf == [txt \in LitTexts |-> CHOOSE n \in LitIds : LitFn[n][1] = txt]
LitId(text) == LitIdOf[text]
LitOf(text) == LitFn[LitIdOf[text]]
LitNorm(text) == LitOf(text)[2]
LitBase(text) == LitOf(text)[3]
LitById(n) == Lit(LitFn[n][1])
\* the annotation texts are pairwise different (LitOf is well defined)
ASSUME \A m, n \in LitIds : m # n => LitFn[m][1] # LitFn[n][1]

\* mechanism class of a literal (finding signatures): what its rendering has to get right
Ctl == {"nul", "soh", "bel", "us", "del", "nel"}
Digits == {"1", "2"}
StrFeat(cs) ==
  (IF \E i \in 1..Len(cs) : cs[i] = "dq" THEN {"string-literal-with-quote"} ELSE {}) \cup
  (IF \E i \in 1..Len(cs) : cs[i] = "bs" THEN {"string-literal-with-backslash"} ELSE {}) \cup
  (IF \E i \in 1..Len(cs) : cs[i] \in {"nl", "cr", "tab"} THEN {"string-literal-with-newline-or-tab"} ELSE {}) \cup
  (IF \E i \in 1..Len(cs) - 1 : cs[i] \in Ctl /\ cs[i + 1] \in Digits
   THEN {"string-literal-with-control-character-before-digit"} ELSE {}) \cup
  (IF \E i \in 1..Len(cs) : cs[i] \in Ctl /\ ~(i < Len(cs) /\ cs[i + 1] \in Digits)
   THEN {"string-literal-with-control-character"} ELSE {}) \cup
  (IF \E i \in 1..Len(cs) - 1 : cs[i] = "esc" /\ cs[i + 1] \in Digits
   THEN {"string-literal-with-escape-character-before-digit"} ELSE {}) \cup
  (IF \E i \in 1..Len(cs) : cs[i] = "esc" /\ ~(i < Len(cs) /\ cs[i + 1] \in Digits)
   THEN {"string-literal-with-escape-character"} ELSE {}) \cup
  (IF \E i \in 1..Len(cs) : cs[i] \in {"eacute", "cjk", "astral"} THEN {"string-literal-non-ascii"} ELSE {}) \cup
  (IF cs = <<>> THEN {"string-literal-empty"} ELSE {})
LitFeatFn == [n \in LitIds |-> IF n \in StrIds THEN StrFeat(StrTab(n))
                                ELSE IF n \in {"i32", "-i32", "f53", "max", "-max"} THEN {"integer-literal-large"}
                                ELSE {}]
LitFeat(text) == LitFeatFn[LitId(text)]

\* ---- normal form (what a term denotes, independent of how it is written): uniform records [k, n, m, keys];
\*      optionals are unions with nil, union members are a set (the comparison ignores their order),
\*      optional record fields are fields of type t|nil
HasNil(t) == Kind(t) = "opt" \/ t = TNil \/ (Kind(t) = "union" /\ \E i \in 1..Len(Kids(t)) : Kids(t)[i] = TNil)
RECURSIVE Norm(_), UMembers(_)
UMembers(t) == IF Kind(t) = "union" THEN Kids(t)
               ELSE IF Kind(t) = "opt" THEN UMembers(Kids(t)[1]) \o <<TNil>>
               ELSE <<t>>
N(k, n, m, keys) == [k |-> k, n |-> n, m |-> m, keys |-> keys]
NormSeq(ts) == [i \in 1..Len(ts) |-> Norm(ts[i])]
Norm(t) ==
  CASE Kind(t) = "prim" -> N("prim", Name(t), <<>>, <<>>)
    [] Kind(t) = "lit" -> N("lit", LitNorm(Name(t)), <<>>, <<>>)
    [] Kind(t) = "ref" -> N("ref", Name(t), <<>>, <<>>)
    [] Kind(t) = "tpl" -> N("tpl", Name(t), <<>>, <<>>)
    [] Kind(t) \in {"union", "opt"} -> N("union", "", NormSeq(UMembers(t)), <<>>)
    [] Kind(t) \in {"arr", "map", "tup", "fun", "fun0"} -> N(Kind(t), "", NormSeq(Kids(t)), <<>>)
    [] Kind(t) = "gen" -> N("gen", Name(t), NormSeq(Kids(t)), <<>>)
    [] Kind(t) = "rec" ->
         LET sh == RecShape(Name(t)) IN
         N("rec", "", [i \in 1..Len(sh) |-> IF sh[i][2] /\ ~HasNil(Kids(t)[i]) THEN Norm(Opt(Kids(t)[i]))
                                             ELSE Norm(Kids(t)[i])],
           [i \in 1..Len(sh) |-> sh[i][3]])

\* ---- the declared world -------------------------------------------------------------------
\* classes with their direct parents; A <: B <: C, and D <: A, D <: X (multiple inheritance)
Classes == {"A", "B", "C", "D", "X"}
Parents == [c \in Classes |-> CASE c = "A" -> {"B"} [] c = "B" -> {"C"} [] c = "D" -> {"A", "X"}
                                [] OTHER -> {}]
RECURSIVE AncN(_, _)
AncN(S, n) == IF n = 0 THEN S ELSE AncN(S \cup UNION {Parents[c] : c \in S}, n - 1)
\* proper ancestors of class c (reference: transitive closure of Parents)
Ancestors(c) == AncN(Parents[c], Cardinality(Classes))

SeqOf(S) == CHOOSE s \in [1..Cardinality(S) -> S] : \A i, j \in 1..Cardinality(S) : i # j => s[i] # s[j]
WorldDecl ==
  [classes |-> [c \in Classes |-> SeqOf(Parents[c])],
   alias |-> [Al |-> "integer|string"],
   enum |-> [E |-> <<"x", "y">>],
   generic |-> [G |-> "T"]]
==============================================================================
