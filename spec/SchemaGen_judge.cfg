SPECIFICATION Spec
CONSTANTS
  Mode = "judge"
  Depth = 1
INVARIANTS Judge
