SPECIFICATION Spec
CONSTANTS
  NPaths = 3
  Contents = {"Enum", "Mod", "GStr", "DiagOff", "Alias"}
  Ops = {"unset", "remove"}
  MaxSteps = 3
  EditDist = 3
  Batch = FALSE
  EmitSel = "removal"
VIEW View
INVARIANTS ReindexIsIdeal NoLeak Emit
