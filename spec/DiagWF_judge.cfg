\* validation of recorded diagnose_file results (IOEnv.RECS), one state per record
SPECIFICATION Spec
CONSTANTS
  MaxLines = 0
  EmitMod = 1
  Mode = "judge"
  WithErr = FALSE
INVARIANTS EmitJudge
