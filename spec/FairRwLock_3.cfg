SPECIFICATION Spec
CONSTANT N = 3
INVARIANTS Exclusive NoStarvationShape Emit
