----------------------------- MODULE FsAtomicScn -----------------------------
(* Scenario generator for C39: which kinds of TARGET FILES `luafmt --write` is pointed at.

   The atomic-replace protocol of luafmt depends on what the target is (it resolves symlinks, copies the
   permissions, creates its temporary file in the target's directory), and a formatter may be tempted to take
   a different path for some of them ("keep the other hard links attached", "the directory is not writable, write
   in place").  A scenario directory is the union of the entries of a set of target classes, formatted in one
   run, either by naming the files or by naming the directory:

     plain     p.lua                     ordinary file that needs formatting
     hardlink  h1.lua = k/h2.lua         one inode, two names (only h1.lua is named in "files" mode)
     symlink   s.lua -> real/t.lua       only the link is named in "files" mode
     rofile    r.lua (mode 0444)         no write permission on the file; the directory is writable
     rodir     ro/a.lua, ro/ mode 0555   the file is writable, the directory is not: no temporary file can be created
     empty     e.lua                     empty file (formatting is the identity)
     nonl      n.lua                     no trailing newline

   Every scenario (one per initial state) is printed as an SCN line with, per entry, what a fault-free run must
   leave behind (`expect`: "fmt" = formatted, "orig" = untouched, "either") and whether the run may report failure; the
   driver materialises it (as an unprivileged user, so that the permission bits matter), records the run, and
   FsAtomic.tla composes the faults.  *)
EXTENDS Naturals, Sequences, FiniteSets, TLC, Json

CONSTANTS Sizes,     \* numbers of classes combined in one scenario
          ArgModes   \* "files": the targets are named on the command line; "dir": `--write .`

VARIABLES cls, argmode
vars == <<cls, argmode>>

ClassSeq == <<"plain", "hardlink", "symlink", "rofile", "rodir", "empty", "nonl">>
Classes == {ClassSeq[i] : i \in DOMAIN ClassSeq}

MessyA == "local  a=1\nlocal b   =  {1,2,}\n"
MessyB == "local   x = 'a'\nprint( x )\nlocal  t = {x,x,  x}\n"

\* kind: "file" | "hard" (second name of the inode of `to`) | "symlink" (to `to`); arg: named in "files" mode;
\* reached(m): a fault-free run in mode m rewrites it
E(name, kind, content, to, ro, arg) == [name |-> name, kind |-> kind, content |-> content, to |-> to, ro |-> ro, arg |-> arg]
Entries(c) ==
  CASE c = "plain"    -> <<E("p.lua", "file", MessyA, "", FALSE, TRUE)>>
    [] c = "hardlink" -> <<E("h1.lua", "file", MessyB, "", FALSE, TRUE), E("k/h2.lua", "hard", MessyB, "h1.lua", FALSE, FALSE)>>
    [] c = "symlink"  -> <<E("real/t.lua", "file", MessyA, "", FALSE, FALSE), E("s.lua", "symlink", MessyA, "real/t.lua", FALSE, TRUE)>>
    [] c = "rofile"   -> <<E("r.lua", "file", MessyB, "", TRUE, TRUE)>>
    [] c = "rodir"    -> <<E("ro/a.lua", "file", MessyA, "", FALSE, TRUE)>>
    [] c = "empty"    -> <<E("e.lua", "file", "", "", FALSE, TRUE)>>
    [] c = "nonl"     -> <<E("n.lua", "file", "local  a=1", "", FALSE, TRUE)>>
RoDirs(c) == IF c = "rodir" THEN <<"ro">> ELSE <<>>

RECURSIVE Flat(_, _)
Flat(f(_), i) == IF i > Len(ClassSeq) THEN <<>>
                 ELSE (IF ClassSeq[i] \in cls THEN f(ClassSeq[i]) ELSE <<>>) \o Flat(f, i + 1)

\* what the fault-free run leaves: everything it reaches and can replace is formatted
InRoDir(e) == e.name = "ro/a.lua"
Expect(e) ==
  IF InRoDir(e) THEN "either"                  \* no temporary file can be created: untouched (and the run fails), or
                                               \* rewritten by other means -- the property allows both
  ELSE IF argmode = "dir" \/ e.arg THEN "fmt"
  ELSE IF e.kind = "hard" THEN "either"        \* replace-by-rename leaves this name on the old inode (original); a tool
                                               \* that keeps the inode rewrites it too -- the property allows both
  ELSE "fmt"                                   \* the file behind the named symlink
Scenario ==
  LET es == Flat(Entries, 1) IN
  [classes |-> SelectSeq(ClassSeq, LAMBDA c : c \in cls), argmode |-> argmode,
   entries |-> [i \in DOMAIN es |-> [name |-> es[i].name, kind |-> es[i].kind, content |-> es[i].content, to |-> es[i].to,
                                     ro |-> es[i].ro, expect |-> Expect(es[i])]],
   rodirs |-> Flat(RoDirs, 1),
   argv |-> <<"--write">> \o (IF argmode = "dir" THEN <<".">>
                              ELSE LET a == SelectSeq(es, LAMBDA e : e.arg) IN [i \in DOMAIN a |-> a[i].name]),
   mayfail |-> "rodir" \in cls]

Init == /\ cls \in {S \in SUBSET Classes : Cardinality(S) \in Sizes}
        /\ argmode \in ArgModes
Next == UNCHANGED vars
Spec == Init /\ [][Next]_vars

Emit == PrintT(<<"SCN", ToJson(Scenario)>>)
=============================================================================
