SPECIFICATION Spec
CONSTANTS
  AtomNames = {"nil", "boolean", "true", "integer", "1", "number", "string", "'s'", "table", "A", "B", "C", "Al", "E"}
  SibNames = {"integer", "'s'", "A"}
  KeyNames = {"string", "integer"}
  RecShapes = {"x", "x?", "x,y", "x,y?"}
  Depth2Kinds = {"union", "opt", "arr", "tup", "map", "rec", "fun", "fun0", "gen"}
  WrapNames = {"integer", "nil"}
INVARIANTS WellFormed Emit
