SPECIFICATION Spec
VIEW view
CONSTANTS
  Uris = {"u1"}
  Texts = {"t1","t2"}
  MaxMsgs = 3
  MsgKinds = {"open","change","close"}
  MaxCfg = 0
  MaxDisk = 0
  OnDisk = {}
  InlineOpen = FALSE
  InlineChange = TRUE
  InlineClose = FALSE
INVARIANTS Emit
