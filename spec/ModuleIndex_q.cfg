SPECIFICATION Spec
CONSTANTS
  Files = {"F1", "F2", "F3", "F4", "F6"}
  PatternSets = {"default", "luaonly"}
  MapSets = {FALSE, TRUE}
  StrictSets = {FALSE, TRUE}
  RootSets = {"w+lib"}
  MaxSteps = 3
VIEW View
INVARIANTS TreeOk FuzzyOk NameOk Agree RemovedUnresolvable Emit
