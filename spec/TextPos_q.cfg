SPECIFICATION Spec
CONSTANTS
  MaxLen = 4
  Alphabet = {"a", "e", "E", "n", "r"}
INVARIANTS RoundTrip Clamp NoLine Emit
