------------------------------ MODULE DocExport ------------------------------
(* Reference model of the JSON documentation export of emmylua_doc_cli (C35):
   crates/emmylua_doc_cli/src/json_generator/export.rs (export_modules / export_types / export_globals).

   Workspace: main files a.lua, b.lua, sub/c.lua and a library root lib/ with l.lua.  A file is a SET of
   snippets from a small alphabet; every snippet declares one entity:
        CF  ---@class Foo  (+ one field, named after the file, so Foo can be split across files)
        CB  ---@class Bar: Foo
        EN  ---@enum Color
        AL  ---@alias MyId string|integer
        GA  GlobA = 1                       (global field)
        GT  GlobT = { k = 1 }               (global table)
        LC  ---@class LibCls                LG  LibGlob = 1
   and every file ends with `return M`, i.e. is a module with an exported value.

   Reference semantics (the property): the export consists of three lists
        types   = every (kind, name) declared by a snippet of some MAIN file        -- each exactly once
        globals = every global name assigned in some MAIN file                      -- each exactly once
        modules = the module name of every MAIN file                                -- each exactly once
   nothing that is declared only in the library root (or in the standard library) appears.

   The implementation takes each list from a hash map; the model makes that explicit: an export run
   produces each list in SOME order (`Orders`): any permutation if the exporter does not sort, the one
   canonical sequence if it does.  Two runs are modelled side by side; `Reproducible` (run1 = run2) holds
   for SortsBeforeExport = TRUE and is violated for FALSE as soon as a list has two entries -- byte
   identity requires sorting.  The driver model-checks both (the second must fail = vacuity guard),
   enumerates the workspaces with their expected lists and replays them through the real binary in
   several fresh processes. *)
EXTENDS Naturals, Sequences, FiniteSets, TLC, Json

CONSTANTS AlphaA, AlphaB, AlphaC, AlphaL,   \* snippets each file may contain (file content = any subset)
          SortsBeforeExport,                \* does the exporter sort its lists?
          TwoRuns                           \* TRUE: explore two runs and their orders; FALSE: only enumerate workspaces

VARIABLES ws,          \* [a, b, c, l] -> set of snippets
          run1, run2   \* [types, globals, modules] -> sequence of entries

vars == <<ws, run1, run2>>

MainFiles == {"a", "b", "c"}
ModName(f) == CASE f = "a" -> "a" [] f = "b" -> "b" [] f = "c" -> "sub.c" [] f = "l" -> "l"

\* entity declared by a snippet: <<list, kind, name>>
Decl(s) == CASE s = "CF" -> <<"types", "class", "Foo">>
             [] s = "CB" -> <<"types", "class", "Bar">>
             [] s = "EN" -> <<"types", "enum", "Color">>
             [] s = "AL" -> <<"types", "alias", "MyId">>
             [] s = "GA" -> <<"globals", "field", "GlobA">>
             [] s = "GT" -> <<"globals", "table", "GlobT">>
             [] s = "LC" -> <<"types", "class", "LibCls">>
             [] s = "LG" -> <<"globals", "field", "LibGlob">>
             [] s = "PH" -> <<"types", "class", "Helper">>      \* ---@class (private) Helper   (file-scoped)
             [] s = "PE" -> <<"types", "enum", "Mode">>         \* ---@enum (private) Mode
             [] s = "PA" -> <<"types", "alias", "Key">>         \* ---@alias (private) Key string

\* ---- file-scoped types (second seeded round) -----------------------------------------------------------
\* `---@class (private) Helper` declares a type that belongs to ITS FILE: the analyser identifies a type declaration by
\* (scope, name), not by name, so two files may each declare their own Helper and these are two declared types.  An
\* ENTITY is therefore <<list, kind, name, scope>>: scope = the declaring file for a file-scoped snippet, "" otherwise
\* (a global name: re-declaring it in another file re-opens the same entity).  "Each declared type exactly once"
\* then demands one entry PER ENTITY: two entries named Helper for two private Helper classes of two main files.
FileScoped == {"PH", "PE", "PA"}
Ent(s, f) == Decl(s) \o <<IF s \in FileScoped THEN f ELSE "">>

MainDecls(w) == UNION {{Ent(s, f) : s \in w[f]} : f \in MainFiles}
LibOnlyDecls(w) == {Ent(s, "l") : s \in w["l"]} \ MainDecls(w)

Expected(w, list) ==
  IF list = "modules" THEN {<<"modules", "module", ModName(f), "">> : f \in MainFiles}
  ELSE {d \in MainDecls(w) : d[1] = list}

Lists == {"types", "globals", "modules"}

\* every sequence that lists each element of S exactly once
Perms(S) == {s \in [1..Cardinality(S) -> S] : \A i, j \in 1..Cardinality(S) : s[i] = s[j] => i = j}
Canon(S) == CHOOSE s \in Perms(S) : TRUE          \* "sorted": a fixed function of the set
Orders(S) == IF SortsBeforeExport THEN {Canon(S)} ELSE Perms(S)

Workspaces == {[a |-> xa, b |-> xb, c |-> xc, l |-> xl] :
                 xa \in SUBSET AlphaA, xb \in SUBSET AlphaB, xc \in SUBSET AlphaC, xl \in SUBSET AlphaL}

Init == /\ ws \in Workspaces
        /\ IF TwoRuns
             THEN /\ run1 \in {[types |-> t, globals |-> g, modules |-> m] :
                                 t \in Orders(Expected(ws, "types")), g \in Orders(Expected(ws, "globals")),
                                 m \in Orders(Expected(ws, "modules"))}
                  /\ run2 \in {[types |-> t, globals |-> g, modules |-> m] :
                                 t \in Orders(Expected(ws, "types")), g \in Orders(Expected(ws, "globals")),
                                 m \in Orders(Expected(ws, "modules"))}
             ELSE run1 = <<>> /\ run2 = <<>>
Next == UNCHANGED vars
Spec == Init /\ [][Next]_vars

\* ---- properties of the model ----------------------------------------------------------------------
Rng(s) == {s[i] : i \in DOMAIN s}
\* completeness + uniqueness + nothing from the library: holds for every order
ExactlyOnce == TwoRuns =>
   \A r \in {run1, run2} : \A l \in Lists :
      /\ Rng(r[l]) = Expected(ws, l)
      /\ Len(r[l]) = Cardinality(Expected(ws, l))
      /\ Rng(r[l]) \cap LibOnlyDecls(ws) = {}
\* byte identity of two exports of the same workspace
Reproducible == TwoRuns => run1 = run2

\* ---- types declared in a library root AND in the main workspace (strengthened after seeded review) -----
\* A class / enum / alias may be (partially) declared in the library file and re-opened in a main file.  The
\* type index keeps ONE declaration per name whose location list grows in LOAD order; the loader analyses
\* library roots before the main workspace ("lib-first", the only order the command line can produce), the
\* opposite order ("main-first") is what an incremental re-analysis of the library file would give.  The
\* property does not depend on that order: a type is listed iff SOME location is a main file -- exactly once.
\* `ListedByFirst` is the tempting wrong rule ("a type is documented by the workspace that defines it").
LoadOrders == {"lib-first", "main-first"}
MainSeq == <<"a", "b", "c">>
FileSeq(ord) == IF ord = "lib-first" THEN <<"l">> \o MainSeq ELSE MainSeq \o <<"l">>
AllDecls(w) == MainDecls(w) \cup {Ent(s, "l") : s \in w["l"]}
\* location list of entity d: the files declaring it, in load order
Locs(w, d, ord) == SelectSeq(FileSeq(ord), LAMBDA f : \E s \in w[f] : Ent(s, f) = d)
ListedByAny(w, d, ord) == \E i \in DOMAIN Locs(w, d, ord) : Locs(w, d, ord)[i] \in MainFiles
ListedByFirst(w, d, ord) == Locs(w, d, ord) # <<>> /\ Locs(w, d, ord)[1] \in MainFiles
TypeDecls(w) == {d \in AllDecls(w) : d[1] = "types"}
\* types declared both in the library root and in the main workspace
SharedTypes(w) == {d \in TypeDecls(w) : d \in MainDecls(w) /\ \E s \in w["l"] : Ent(s, "l") = d}
\* invariant: the any-location rule is the reference, whatever the load order
AnyLocIsReference == \A ord \in LoadOrders : \A d \in TypeDecls(ws) :
                        ListedByAny(ws, d, ord) <=> d \in Expected(ws, "types")
\* NOT an invariant (vacuity guard, cfg DocExport_firstloc must violate it): the first-location rule
FirstLocIsReference == \A ord \in LoadOrders : \A d \in TypeDecls(ws) :
                        ListedByFirst(ws, d, ord) <=> d \in Expected(ws, "types")
\* what a first-location exporter would lose, per load order (labels the cases the driver must replay)
LostByFirstLoc(w, ord) == {d \in Expected(w, "types") : ~ListedByFirst(w, d, ord)}

\* main-workspace types that share kind and name with another main-workspace type (different scopes)
SameNamed(w) == {d \in Expected(w, "types") : \E e \in Expected(w, "types") : e # d /\ e[2] = d[2] /\ e[3] = d[3]}
\* NOT an invariant (vacuity guard, cfg DocExport_byname must violate it): an exporter that collects the types in a
\* map keyed by NAME loses nothing
KeyedByNameLosesNothing ==
   Cardinality({<<d[2], d[3]>> : d \in Expected(ws, "types")}) = Cardinality(Expected(ws, "types"))
\* the expected entries of the types list as <<kind, name>>, one per entity (so a name may occur twice)
\* (built element by element: Canon enumerates n^n functions, too many for eight entities)
RECURSIVE SeqOfSet(_)
SeqOfSet(S) == IF S = {} THEN <<>> ELSE LET x == CHOOSE y \in S : TRUE IN <<x>> \o SeqOfSet(S \ {x})
TypeEntries(w) == LET es == SeqOfSet(Expected(w, "types")) IN [i \in DOMAIN es |-> <<es[i][2], es[i][3]>>]

\* ---- case emission (TwoRuns = FALSE) ----------------------------------------------------------------
AsSeq(S) == Canon(S)
SplitClass(w) == Cardinality({f \in MainFiles : "CF" \in w[f]}) >= 2
MultiFileGlobals(w) == {n \in {"GlobA", "GlobT", "LibGlob"} :
                          Cardinality({f \in MainFiles : \E s \in w[f] : Decl(s)[1] = "globals" /\ Decl(s)[3] = n}) >= 2}
Emit == TwoRuns \/ PrintT(<<"CASE", ToJson([
           ws |-> [f \in {"a", "b", "c", "l"} |-> AsSeq(ws[f])],
           types |-> TypeEntries(ws),
           samenamed |-> AsSeq({<<d[2], d[3]>> : d \in SameNamed(ws)}),
           globals |-> AsSeq({d[3] : d \in Expected(ws, "globals")}),
           modules |-> AsSeq({d[3] : d \in Expected(ws, "modules")}),
           libonly |-> AsSeq({d[3] : d \in LibOnlyDecls(ws)}),
           shared |-> AsSeq({<<d[2], d[3]>> : d \in SharedTypes(ws)}),
           lost_if_first_loc |-> [ord \in LoadOrders |-> AsSeq({<<d[2], d[3]>> : d \in LostByFirstLoc(ws, ord)})],
           split |-> SplitClass(ws),
           multiglobal |-> AsSeq(MultiFileGlobals(ws))])>>)
=============================================================================
