SPECIFICATION Spec
CONSTANTS
  MaxLen = 6
  Alphabet = {"a", "e", "E", "n", "r"}
INVARIANTS RoundTrip Clamp NoLine Emit
