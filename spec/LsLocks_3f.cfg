SPECIFICATION Spec
CONSTANTS
  K = 3
  Greedy = FALSE
VIEW view
INVARIANTS EmitBlocked NoReacquireEmit
