SPECIFICATION RunSpec
CONSTANTS
  Vars = {"x", "y"}
  Lits = {"nil", "false", "true", "0", "s", "t"}
  Opaques = {"opaque", "opaque_any"}
  TypeNames = {"nil", "boolean", "number", "string", "table"}
  AtomKinds = {"type", "typene", "typer", "eqnil", "nenil", "nileq", "truthy"}
  Shapes = {"T", "A", "AND", "OR"}
  OuterNot = {FALSE, TRUE}
  ForBounds = {"0", "2", "?"}
  LoopKinds = {"while", "repeat", "fornum", "forin"}
  MaxLen = 9
  MaxIter = 2
  Loops = "any"
VIEW RunView
INVARIANTS TypeOK Report
